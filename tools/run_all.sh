#!/bin/bash
# run every registered check's quick tier (or $1 = thorough), print one summary line each
TIER=${1:-quick}
cd /verif
for id in $(python3 -c "import json;print(' '.join(c['property_id'] for c in json.load(open('MANIFEST.json'))['checks']))"); do
  out=$(./check $id $TIER 2>&1); rc=$?
  echo "$id rc=$rc $(echo "$out" | tail -1 | cut -c1-200)"
  [ $rc -ne 0 ] && echo "$out" | grep -E "VIOLATION|INCONCLUSIVE|section=" | head -6 | cut -c1-400
done
