#!/bin/bash
# usage: tools/fuzz_campaign.sh <target> <runs-per-job> [jobs] [seed]
# Coverage-guided campaign (cargo-fuzz / libFuzzer, ASan, debug assertions on) with a fixed number of runs per job.
# The targets call the same oracle functions as the proptest checks. New crash inputs are copied to corpus/<cXX>/ (committed by hand
# after triage) and reported as "FUZZ-CRASH target=<t> file=<path>"; exit 1 if any crash was found, 0 otherwise.
set -u
ROOT="$(cd "$(dirname "${BASH_SOURCE[0]}")/.." && pwd)"
T="$1"; RUNS="${2:-200000}"; JOBS="${3:-8}"; SEED="${4:-${VERIF_SEED:-1}}"
export CARGO_NET_OFFLINE=true RWS_VERIF_SRC="${RWS_VERIF_SRC:-/repo}" RWSV_VERIF_DIR="$ROOT"
cd "$ROOT/fuzz" || exit 2
cargo +nightly fuzz build --fuzz-dir . "$T" > "$ROOT/.build/fuzz-build-$T.log" 2>&1 || { echo "BUILD-FAILED fuzz target $T (see $ROOT/.build/fuzz-build-$T.log)"; tail -20 "$ROOT/.build/fuzz-build-$T.log"; exit 2; }
WORK="$ROOT/fuzz/corpus-work/$T"; ART="$ROOT/fuzz/artifacts/$T"
mkdir -p "$WORK" "$ART"
[ -d "$ROOT/fuzz/seeds/$T" ] && cp -n "$ROOT/fuzz/seeds/$T"/* "$WORK"/ 2>/dev/null
BIN="$ROOT/fuzz/target/x86_64-unknown-linux-gnu/release/$T"
BEFORE=$(ls "$ART" 2>/dev/null | wc -l)
export RWSV_FUZZ_VIOLATION_LOG="$ART/violations.log"
pids=()
for j in $(seq 1 "$JOBS"); do
  ( cd "$ROOT/fuzz" && "$BIN" "$WORK" -artifact_prefix="$ART/" -runs="$RUNS" -seed=$((SEED * 1000 + j)) -max_len=12000 -len_control=0 -rss_limit_mb=4096 -timeout=60 -close_fd_mask=3 -print_final_stats=1 > "$ROOT/.build/fuzz-$T-$j.log" 2>&1 ) &
  pids+=($!)
done
rc=0
for p in "${pids[@]}"; do wait "$p" || rc=1; done
execs=$(grep -h "stat::number_of_executed_units" "$ROOT"/.build/fuzz-$T-*.log 2>/dev/null | awk '{s+=$2} END {print s+0}')
echo "fuzz target=$T jobs=$JOBS runs_per_job=$RUNS executed=$execs corpus=$(ls "$WORK" | wc -l)"
found=0
for f in "$ART"/crash-* "$ART"/timeout-* "$ART"/oom-*; do
  [ -e "$f" ] || continue
  found=1
  prop=$(echo "$T" | cut -c1-3)
  mkdir -p "$ROOT/fuzz/found/$prop"
  cp "$f" "$ROOT/fuzz/found/$prop/$(basename "$f")"
  echo "FUZZ-CRASH target=$T file=$ROOT/fuzz/found/$prop/$(basename "$f")"
done
[ -f "$ART/violations.log" ] && sort "$ART/violations.log" | cut -c1-300 | uniq -c | head -5
# scratch of these jobs only (other checks may be running beside the campaign)
for p in "${pids[@]}"; do rm -rf /tmp/rwsv-tree-"$p"-* /tmp/rwsv-fuzz-"$p"* 2>/dev/null; done
exit $found
