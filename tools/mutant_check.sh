#!/bin/bash
# usage: tools/mutant_check.sh <patch-file|commit:REV> <ID> [quick|thorough|--replay file]
# Runs one check against a scratch copy of /repo with a patch applied (or at a given revision), without touching /repo.
set -u
SPEC="$1"; shift
case "$SPEC" in commit:*) ;; *) SPEC="$(realpath "$SPEC")" ;; esac
SCR=$(mktemp -d /tmp/rwsv-mut-XXXXXX)
trap 'rm -rf "$SCR"' EXIT
case "$SPEC" in
  commit:*) git -C /repo archive "${SPEC#commit:}" | tar -x -C "$SCR" ;;
  *) rsync -a --exclude target --exclude .git /repo/ "$SCR"/ && ( cd "$SCR" && git init -q . 2>/dev/null; git apply --whitespace=nowarn "$SPEC" || patch -p1 < "$SPEC" ) || { echo "PATCH-FAILED $SPEC"; exit 3; } ;;
esac
cp /repo/Cargo.lock "$SCR"/ 2>/dev/null
RWS_VERIF_SRC="$SCR" /verif/check "$@"
RC=$?
echo "mutant_check: $SPEC $* -> exit $RC"
exit $RC
