#!/bin/bash
# usage: tools/run_regression.sh [streams]   - every kept seeded change and every hand-written mutant against the quick check of its property,
# in <streams> parallel streams (default 3), each with its own scratch build directory (.build/alt-regK). One line per patch in /verif/.build/regression-K.log;
# at the end a summary: patches whose check did NOT exit 1.
cd /verif
N=${1:-3}
ls -d seeded/*/ | sed 's#/$##' > .build/regression-all.txt
ls mutants/*.patch >> .build/regression-all.txt
for k in $(seq 1 $N); do
  (
    i=0
    while read -r item; do
      i=$((i+1)); [ $(( i % N )) -eq $(( k % N )) ] || continue
      case "$item" in
        seeded/*) patch="/verif/$item/patch.diff"; id=$(python3 -c "import json;print(json.load(open('$item/meta.json'))['property'])"); name=$(basename "$item") ;;
        *) patch="/verif/$item"; id=$(basename "$item" | cut -c1-3); name=$(basename "$item" .patch) ;;
      esac
      out=$(RWSV_ALT=alt-reg$k tools/mutant_check.sh "$patch" "$id" quick 2>&1)
      rc=$(echo "$out" | grep -o "exit [0-9]*$" | tail -1 | cut -d' ' -f2)
      sig=$(echo "$out" | grep -o "sig=[^ ]*" | sort -u | head -3 | tr '\n' ' ')
      echo "$name: exit=$rc $sig $(echo "$out" | grep -E "BUILD-FAILED|PATCH-FAILED" | head -1)"
    done < .build/regression-all.txt
  ) > .build/regression-$k.log 2>&1 &
done
wait
echo "patches: $(cat .build/regression-[0-9]*.log | wc -l) of $(wc -l < .build/regression-all.txt); not exit=1:"
cat .build/regression-[0-9]*.log | grep -v "exit=1 " || true
