#!/usr/bin/env python3
"""Runs the repository's test suite with all verification guards OFF and compares with the 470 stable names of BASELINE.json."""
import json, re, subprocess, sys
repo = sys.argv[1] if len(sys.argv) > 1 else "/repo"
base = json.load(open("/root/.vp/BASELINE.json"))
stable = set(n.split("::", 2)[2] if n.startswith("rws::bin/rws::") else n for n in base["stable_pass"])
stable = set(n.replace("rws::bin/rws::", "") for n in base["stable_pass"])
p = subprocess.run("cargo test --workspace --no-fail-fast --offline 2>&1", shell=True, cwd=repo, capture_output=True, text=True)
res = {}
# output of tests that print from spawned threads can interleave with the result word: take the names from the
# "test NAME ..." lines and the failures from the final "failures:" list
for m in re.finditer(r"^test (\S+) \.\.\. ?(\w*)", p.stdout, re.M):
    res[m.group(1)] = "ok" if m.group(2) != "FAILED" else "FAILED"
fl = re.search(r"^failures:\n((?:    \S+\n)+)\ntest result", p.stdout, re.M)
if fl:
    for n in fl.group(1).split():
        res[n] = "FAILED"
missing = sorted(n for n in stable if res.get(n) != "ok")
print("tests run:", len(res), "ok:", sum(1 for v in res.values() if v == "ok"), "stable expected:", len(stable), "stable not ok:", len(missing))
for n in missing[:40]: print("  NOT OK:", n, res.get(n))
if not res: print(p.stdout[-3000:])
sys.exit(1 if missing or not res else 0)
