#!/bin/bash
# usage: tools/verify_seed.sh <worktree> <demo command...>   (run inside the worktree; toggles the change with git apply -R / git apply)
WT="$1"; shift
cd "$WT" || exit 3
git diff --quiet -- src && git apply deliver/patch.diff
cargo build --offline >/dev/null 2>&1
"$@" > /tmp/verify-with.txt 2>&1; W=$?
git apply -R deliver/patch.diff || { echo "cannot reverse patch"; exit 3; }
cargo build --offline >/dev/null 2>&1
"$@" > /tmp/verify-without.txt 2>&1; WO=$?
git apply deliver/patch.diff
cargo build --offline >/dev/null 2>&1
B=$(/verif/tools/baseline_check.py "$WT" | tail -1)
echo "verify $WT: demo with change exit=$W, without exit=$WO; baseline with change: $B"
