#!/usr/bin/env python3
"""tools/pack_corpus.py <corpus-dir> <out.pack> [max-entry-bytes]: packs a (libFuzzer -merge=1 minimised) corpus directory into one file of
length-prefixed entries (u32 little endian + bytes), sorted by content so that the result is deterministic. The quick checks replay every
entry of corpus/<cNN>/*.pack in their section 'corpus' with the same oracle as the fuzz target."""
import os, struct, sys
d, out = sys.argv[1], sys.argv[2]
limit = int(sys.argv[3]) if len(sys.argv) > 3 else 1024
entries = []
for f in os.listdir(d):
    p = os.path.join(d, f)
    if os.path.isfile(p) and 0 < os.path.getsize(p) <= limit:
        entries.append(open(p, "rb").read())
entries = sorted(set(entries))
with open(out, "wb") as o:
    for e in entries:
        o.write(struct.pack("<I", len(e))); o.write(e)
print("packed", len(entries), "entries,", os.path.getsize(out), "bytes ->", out)
