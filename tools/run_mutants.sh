#!/bin/bash
# Runs every hand-written mutant (or those matching $1) against the quick check of its property; prints one line each.
cd /verif
for m in mutants/${1:-*}.patch; do
  id=$(basename "$m" | cut -c1-3)
  out=$(tools/mutant_check.sh "/verif/$m" "$id" quick 2>&1)
  rc=$(echo "$out" | grep -o "exit [0-9]*$" | tail -1 | cut -d' ' -f2)
  sig=$(echo "$out" | grep -o "sig=[^ ]*" | sort -u | head -3 | tr '\n' ' ')
  echo "$(basename $m .patch): exit=$rc $sig $(echo "$out" | grep -E "BUILD-FAILED|PATCH-FAILED" | head -1)"
done
