#!/bin/bash
# usage: tools/verify_seed_test.sh <worktree> <cargo test filter>   — seeds whose demonstration is a test module added by deliver/demo.diff
WT="$1"; F="$2"
cd "$WT" || exit 3
git apply -R --check deliver/patch.diff 2>/dev/null || git apply deliver/patch.diff   # make sure the change is applied
git apply --check deliver/demo.diff 2>/dev/null && git apply deliver/demo.diff       # make sure the demo is applied
cargo test --offline "$F" > /tmp/vst-with.txt 2>&1; W=$?
git apply -R deliver/patch.diff || { echo "cannot reverse"; exit 3; }
cargo test --offline "$F" > /tmp/vst-without.txt 2>&1; WO=$?
git apply deliver/patch.diff
git apply -R deliver/demo.diff
B=$(/verif/tools/baseline_check.py "$WT" | tail -1)
echo "verify $WT [$F]: with change exit=$W ($(grep -E '^test result' /tmp/vst-with.txt | head -1)), without exit=$WO ($(grep -E '^test result' /tmp/vst-without.txt | head -1)); baseline with change: $B"
