#!/usr/bin/env python3
"""Writes small valid seed inputs for the fuzz targets into /verif/fuzz/seeds/<target>/ (fixtures of the repository + hand-made)."""
import os, glob, hashlib
ROOT = os.path.dirname(os.path.dirname(os.path.abspath(__file__)))
def put(t, data):
    d = os.path.join(ROOT, "fuzz", "seeds", t); os.makedirs(d, exist_ok=True)
    open(os.path.join(d, hashlib.sha1(data).hexdigest()[:16]), "wb").write(data)
reqs = [open(f, "rb").read() for f in sorted(glob.glob("/repo/src/request/*.txt") + glob.glob("/repo/src/request/example/*.txt"))]
reqs += [b"GET /a.txt HTTP/1.1\r\nHost: localhost\r\nRange: bytes=2-5\r\n\r\n", b"HEAD /sub/ HTTP/1.1\r\nOrigin: https://o.example\r\n\r\n",
         b"POST /form-url-encoded-enctype-post-method HTTP/1.1\r\nContent-Type: application/x-www-form-urlencoded\r\n\r\na=1&b=2",
         b"POST /form-multipart-enctype-post-method HTTP/1.1\r\nContent-Type: multipart/form-data; boundary=XB\r\n\r\n--XB\r\nContent-Disposition: form-data; name=\"a\"\r\n\r\nv\r\n--XB--\r\n",
         b"POST /file-upload/initiate?name=a&lastModified=1&size=3 HTTP/1.1\r\n\r\n", b"OPTIONS /a.txt HTTP/1.1\r\nOrigin: https://o.example\r\nAccess-Control-Request-Method: PUT\r\n\r\n",
         b"GET /form-get-method?k=v&x=y HTTP/1.1\r\n\r\n", b"GET /big.bin HTTP/1.1\r\nRange: bytes=0-9, 100-199,-5\r\n\r\n"]
for r in reqs:
    put("c14_request", r)
    for sel in (0, 2, 4, 8): put("c04_server", bytes([sel]) + r)
# c20: entry index byte, aux byte, document
entries = ["json-object", "json-property", "json-array-split", "json-array-objects", "list-i8", "list-i16", "list-i32", "list-i64", "list-i128", "list-u8", "list-u16", "list-u32", "list-u64", "list-u128", "list-f32", "list-f64", "list-string", "list-bool", "list-null",
    "base64-decode", "multipart-parse", "multipart-extract-boundary", "request-parse", "response-parse", "header-parse", "content-disposition-parse",
    "range-spec", "content-range-value", "byteranges-body", "config-file", "urlpath-pattern", "urlpath-is-matching", "urlpath-extract", "urlpath-build", "request-line"]
docs = {"json-object": [b'{ "a": 1, "b": "text", "c": true, "d": null, "e": 1.5, "f": { "g": [1,2] }, "h": [ { "x": 1 } ] }'], "json-property": [b'"key": "value"', b'"k": [1, 2]'], "json-array-split": [b'[1,2,3]', b'["a", "b"]', b'[{"s": "x"}]'],
        "base64-decode": [b"Zm9vYmFy", b"Zg=="], "multipart-parse": [b'--XB\r\nContent-Disposition: form-data; name="a"\r\n\r\nvalue\r\n--XB--\r\n'], "request-parse": reqs[:3],
        "response-parse": [open(f, "rb").read() for f in glob.glob("/repo/src/response/example/*.txt")], "header-parse": [b"Content-Type: text/html"], "content-disposition-parse": [b'form-data; name="a"; filename="b.txt"'],
        "range-spec": [b"0-5", b"-5", b"5-"], "content-range-value": [b"bytes 0-5/10"], "config-file": [open("/repo/rws.config.toml", "rb").read()], "urlpath-pattern": [b"/user/[[id]]/post/[[post]]"]}
for i, e in enumerate(entries):
    base = e if e in docs else ("json-array-split" if e.startswith("list-") or e == "json-array-objects" else "urlpath-pattern" if e.startswith("urlpath") else "request-parse" if e == "request-line" else "response-parse" if e == "byteranges-body" else "header-parse")
    for d in docs[base]: put("c20_parsers", bytes([i, 0]) + d)
put("c16_multipart", bytes(range(64)) * 4)
print("seeds written")
