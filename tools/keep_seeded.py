#!/usr/bin/env python3
"""tools/keep_seeded.py <worktree> <slug> <property> <needs> <caught-by> <result-summary>: copy deliverables of a confirmed seeded change into /verif/seeded/<slug>/ and write meta.json"""
import json, os, shutil, sys
wt, slug, prop, needs, caught, summary = sys.argv[1:7]
d = "/verif/seeded/%s" % slug
os.makedirs(d, exist_ok=True)
for f in os.listdir(os.path.join(wt, "deliver")):
    if f.endswith((".diff", ".py", ".sh", ".md", ".rs", ".txt")) and os.path.getsize(os.path.join(wt, "deliver", f)) < 200000:
        shutil.copy(os.path.join(wt, "deliver", f), os.path.join(d, f))
meta = {"property": prop, "breaks": open("/tmp/prop-%s.txt" % prop).read().split("\n")[0], "needs_to_manifest": needs,
        "confirmed": "demo fails with patch.diff applied and passes without it in a scratch worktree; crate builds; the 470 stable baseline tests pass with the patch (tools/baseline_check.py <worktree>)",
        "checked_with": caught, "result": summary}
json.dump(meta, open(os.path.join(d, "meta.json"), "w"), indent=1)
print("kept", d, sorted(os.listdir(d)))
