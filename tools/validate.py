#!/opt/veriftools/pyvenv/bin/python
"""Validate MANIFEST.json and evidence/*.json against the schemas in /root/.vp."""
import json, sys, glob, jsonschema
ok = True
ms = json.load(open('/root/.vp/MANIFEST.schema.json'))
es = json.load(open('/root/.vp/EVIDENCE.schema.json'))
try:
    m = json.load(open('/verif/MANIFEST.json')); jsonschema.validate(m, ms); print('MANIFEST ok, checks:', len(m['checks']))
except Exception as e:
    ok = False; print('MANIFEST INVALID:', str(e)[:500])
for f in sorted(glob.glob('/verif/evidence/*.json')):
    try:
        e = json.load(open(f)); jsonschema.validate(e, es)
        c = e['coverage']; print(f.split('/')[-1], 'ok', e['tier'], 'eval', c.get('evaluations'), 'nontriv', c.get('distinct_nontrivial'), 'viol', e.get('violations'), 'wall', e['wall_s'])
    except Exception as ex:
        ok = False; print(f, 'INVALID:', str(ex)[:300])
sys.exit(0 if ok else 1)
