#!/bin/bash
# Runs every kept seeded change (or those matching $1) against the quick check of its property on a scratch copy of /repo (never /repo itself);
# prints one line each: <dir>: exit=<rc> <signatures>
cd /verif
for d in seeded/${1:-*}/; do
  d=${d%/}
  id=$(python3 -c "import json;print(json.load(open('$d/meta.json'))['property'])")
  out=$(tools/mutant_check.sh "/verif/$d/patch.diff" "$id" quick 2>&1)
  rc=$(echo "$out" | grep -o "exit [0-9]*$" | tail -1 | cut -d' ' -f2)
  sig=$(echo "$out" | grep -o "sig=[^ ]*" | sort -u | head -3 | tr '\n' ' ')
  echo "$(basename $d): exit=$rc $sig $(echo "$out" | grep -E "BUILD-FAILED|PATCH-FAILED" | head -1)"
done
