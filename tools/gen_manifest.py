#!/usr/bin/env python3
"""Generates /verif/MANIFEST.json from the table below (kept in one place so that it stays valid)."""
import json, subprocess

ALL = ["C%02d" % i for i in range(1, 21)]

# id -> (engine, technique, level text, level note, design ref)
CHECKS = {
 "C01": ("pbt+net", "seeded proptest over generated document trees x traversal-target grammar, oracle = planted-secret non-disclosure + error status for climbing targets",
         "Exploration: every run materialises 32 (quick) / 640 (thorough) generated trees with uniquely marked secrets at every ancestor level, beside owner-linked outside directories and in look-alike sibling directories, and sends 1,500 / 4,000 grammar-generated targets per tree (half of them climb exactly to a level and name a secret there) with and without Range headers through both request entry points of the real code. A negative ('no target discloses') cannot be proven by sampling; the grammar covers the spellings the statement names.",
         "Secrets consist of marker text only, so any 12-byte window of a secret in a response is a disclosure; Range slices of a secret shorter than 12 bytes would escape; in-process route with cwd = served root.", "DESIGN.md §4 C01"),
 "C02": ("pbt+net", "seeded proptest over generated document trees, every derived request path judged by a filesystem reference lookup (M-LOOKUP) and an extension table (M-MIME), plus metamorphic query/fragment and legacy-entry differentials",
         "Exploration: 128 (quick) / 3,000 (thorough) generated trees; for each tree every file, directory (with/without slash), .html fallback, special route and six kinds of near miss is requested with four suffixes through the real Server::process; bytes, length, type and 404 bodies are compared with the harness's own lookup over std::fs. A failing tree is shrunk by proptest. Sampling of trees, exhaustive over the derived paths of each tree.",
         "Trusts std::fs for the reference lookup and the harness's transcription of the extension table; tolerances for the cases the statement leaves open are listed in evidence assumptions.", "DESIGN.md §4 C02"),
 "C03": ("pbt+net", "seeded proptest over (file length, Range header) with an independent RFC 7233 reference model (M-RANGE)",
         "Exploration: 48k (quick) / 3M (thorough) (L, header) pairs with offsets concentrated at 0, 1, L-2..L+1, 2^63, u64::MAX and beyond, 1-6 specs, malformed shapes, reached directly, via directory index and via .html fallback. Satisfiable headers must be served exactly (bytes, label, length, order); others must be 416 or self-consistent. One listed known finding (label last = L) is counted and excluded so that the search continues behind it.",
         "Position-dependent file content makes any wrong offset visible; 'valid' is the RFC 7233 ABNF as parsed by the harness.", "DESIGN.md §4 C03"),
 "C04": ("pbt+net", "grammar-based request mutation (seeded proptest, supervised worker processes) against a strict response parser and a request-line reference model",
         "Exploration: 40k (quick) / 3M (thorough) generated requests - coherent requests to every endpoint and free hostile combinations, 0-4 byte-level mutations, thousands of header lines, oversize, three buffer sizes, three application kinds - run through the real Server::process on a mock transport; panics are caught, aborts (stack overflow) are attributed to the in-flight case by the supervisor. Each response must be exactly one M-HTTP response with an error status where the pre-parser or the handler demands it.",
         "In-process: survival is seen as absence of panic/abort; the harness's pre-parser only demands a status for the classes the statement names. Process-level survival over the network is checked by C06.", "DESIGN.md §4 C04"),
 "C05": ("pbt+net", "seeded proptest: strict independent response parser (M-HTTP) over the request-mutation campaign + differential short-write/unlimited transport",
         "Exploration: 24k (quick) / 2M (thorough) responses from valid and hostile requests on both entry points checked against M-HTTP's well-formedness and self-consistency rules, and 24k / 1M (request, write script) pairs - every chunk size 1..64, a boundary at every byte of the head (also enumerated exhaustively for three requests), random chunk sequences, Ok(0), write error at byte k, flush error - compared with the unlimited-transport response.",
         "Mock transport implements std::io::Write faithfully (short counts are legal); responses compared modulo the timestamp header value.", "DESIGN.md §4 C05"),
 "C06": ("pbt+net+shuttle", "stateful (history) property testing: generated connection histories against the real binary with fault injection at the socket level and an owned acceptor schedule (SIGSTOP/SIGCONT), invariant checked after every history; pool half under shuttle with panicking jobs",
         "Exploration: 480 (quick) / 12,000 (thorough) generated histories of up to 160 / 300 operations (valid and fault-provoking requests, G-REQ mutants, close / RST before and after sending, half-sent requests, stalls, idle connections, dead connections queued in the backlog of a stopped server) on servers with 1, 2, 4, 8 workers; after each history the process, the worker-thread set in /proc, a valid probe and an N-connection capacity probe are checked. 8k / 400k mock-transport fault cases in-process. 800 / 20,000 pool configurations with panicking jobs x 300 / 2000 shuttle schedules. Histories shrink to a minimal operation list.",
         "Logical signals only (exit status, thread names, closed-without-bytes); a probe that merely times out while everything looks healthy is inconclusive. Kernel timing of RST vs accept is forced by queueing the RST while the server is stopped.", "DESIGN.md §4 C06"),
 "C07": ("shuttle", "randomized schedule exploration (shuttle random + PCT depth 1-4, seeded) of the unmodified pool source with generated pool sizes and task lists; native perturbation at the rws_verif event points",
         "Exploration: 1,600 (quick) / 40,000 (thorough) generated (N, task list, submit pattern, scheduler) configurations x 300 / 2000 schedules each (480k schedules per quick run); per execution every task counter must be exactly 1 and every rendezvous of width N (or N-1 beside a long task) must complete - shuttle's deadlock report is a logical verdict. Plus 240 / 8,000 native runs on std primitives with seeded perturbation and trace checks. Schedules are sampled, not enumerated; a failing schedule is replayed from shuttle's schedule string.",
         "shuttle's primitives model std's; the shuttle-only hook breaks the worker loop when the channel closes so that executions terminate; native liveness is not asserted (time limit = inconclusive).", "DESIGN.md §4 C07"),
 "C08": ("pbt+net", "differential property testing: generated request multisets served concurrently (in-process threads behind a barrier; real binary with backlog / barrier / staggered arrival) vs serially",
         "Exploration: 2,400 (quick) / 60,000 (thorough) multisets of 2-64 requests through K concurrent threads calling Server::process in one process, and 320 / 12,000 multisets against the real binary with 1-16 workers in three arrival shapes; every concurrent response must equal the serial response byte for byte modulo the timestamp value and the line order of form echoes.",
         "Real-thread schedules are sampled: a race needing a window of a few instructions may survive; the request path shares no mutable state except the environment.", "DESIGN.md §4 C08"),
 "C09": ("pbt+net", "seeded proptest over generated trees; differential GET vs HEAD vs OPTIONS per servable path with a CORS reference model for the default configuration",
         "Exploration: 48 (quick) / 2,000 (thorough) generated trees, every servable path x 4 header variants x 2 entry points as GET/HEAD/OPTIONS triples (about 24k requests per quick run); HEAD must equal GET in status and header multiset with an empty body, OPTIONS must be a bodiless 2xx with the predicted preflight grants.",
         "GET's own correctness is C02's; CORS grants are judged for the default allow-all configuration (C11 varies it).", "DESIGN.md §4 C09"),
 "C10": ("pbt+net", "seeded proptest: header-multiset invariant over every response of the request-mutation campaign",
         "Exploration: 40k (quick) / 3M (thorough) responses (200, 204, 206, 400, 404, 416, built-in pages, form endpoints, unparseable input; both entry points; allow-all and restricted CORS configuration) must carry each hardening / no-cache header exactly once with the stated value.",
         "Statuses rws cannot be driven to from outside (500) are not reached; crashed requests are C04's.", "DESIGN.md §4 C10"),
 "C11": ("pbt", "seeded proptest over (configuration, Origin, method) with a CORS policy reference model (M-CORS), three routes incl. the full server",
         "Exploration: 40k (quick) / 2M (thorough) (configuration, Origin, method) triples; the Origin generator derives prefixes, suffixes, substrings, case variants, joined lists and the empty string from the configured origins so that near misses are the common case; judged through Cors::get_headers / Header::get_header_list (environment), Cors::_process (struct) and a Server::process round trip.",
         "Configured lists without blanks; an unset switch means the default (on).", "DESIGN.md §4 C11"),
 "C12": ("net", "exhaustive enumeration of the 11x8 setting/source table + seeded proptest over cross-setting combinations and config-file renderings, against the real binary, with a precedence reference model (M-CONF)",
         "Exhaustive for the 88 (setting, source subset) combinations (flagged exhaustive in evidence); exploration for 1,200 (quick) / 40,000 (thorough) sampled combinations in which every setting draws its own sources, flag spelling and file rendering. All 11 effective values are read back from the running server on every run (listen address, thread count, CORS probe responses, echoed buffer size), which also decides independence.",
         "CORS sub-settings are unobservable while the effective allow-all switch is on; renderings stay inside the documented TOML subset (tabs included).", "DESIGN.md §4 C12"),
 "C13": ("pbt+net", "stateful property testing: generated request sequences (network and in-process) with a before/after filesystem manifest invariant; strace audit in the thorough tier",
         "Exploration: 640 (quick) / 8,000 (thorough) sequences of up to 200 operations (state-changing methods on every existing path, new names, traversal targets, uploads naming tree files, G-REQ mutants) over generated trees; the manifest (type, size, SHA-256, link target, mode, mtime) of the whole scratch base - served tree, ancestors, siblings, linked area - must be unchanged. Thorough adds 400 sequences under strace -f -e trace=%file with no successful mutating call under the scratch base.",
         "atime excluded; the harness keeps the server's stdout outside the scratch base.", "DESIGN.md §4 C13"),
 "C14": ("pbt", "seeded proptest round-trip (parse . generate = id) + accept/reject reference model of the request line",
         "Exploration: 50k (quick) / 2M (thorough) generated well-formed requests are serialised by the library and parsed back, compared field by field; 40k / 2M raw messages (request-line near misses, arbitrary UTF-8 heads, junk Content-Length) are judged by the harness's accept/reject model. Failures shrink to a minimal request. Sampling, not proof: absence of a counterexample in the grammar explored.",
         "Trusts Request::generate as the serialiser under test and the harness's request-line model; classes the statement leaves open (lower case, extra spaces, empty target pinned by the unit tests, later non-UTF-8 header lines) assert totality only.", "DESIGN.md §4 C14"),
 "C15": ("pbt", "seeded proptest round-trip Response::parse(serialise(v)) = v through both serialisers, single-field corruptions must be rejected",
         "Exploration: 40k (quick) / 2M (thorough) response values (60 statuses, 4 versions, 0-20 headers, 1 or 2-6 parts with arbitrary binary bodies) serialised by Response::generate_response and by the instance method Response::generate, parsed back and compared field by field; 24k / 1M single-field corruptions (status, reason, version, delimiters, range fields, deleted part header) must yield Err. One listed known finding (instance serialiser drops Content-Type) is counted and excluded.",
         "Bodies never contain the boundary token; header names are tokens other than the framing names; part content types without surrounding blanks.", "DESIGN.md §4 C15"),
 "C16": ("pbt", "seeded proptest round-trip parse(generate(parts, b), b) = parts, browser-shaped differential, structural negatives, echo endpoint",
         "Exploration: 24k (quick) / 1M (thorough) part lists x RFC 2046 boundaries through the library serialiser, 12k / 500k through the browser serialisation (extract_boundary, '--b' delimiters, '--b--'), 12k / 500k structural negatives (opening/closing delimiter removed, truncation after headers / inside a body, part without headers) and 6k / 200k text forms through the server's echo endpoint.",
         "Header values without leading/trailing blanks; the boundary parameter does not occur in the serialised parts (the statement's precondition).", "DESIGN.md §4 C16"),
 "C17": ("pbt", "seeded proptest round-trip decode(encode(m)) = m on four routes (query, form body, GET and POST echo endpoints of the server)",
         "Exploration: 30k (quick) / 1.5M (thorough) maps of up to 20 fields over printable Unicode with reserved characters, '%'+hex, multi-byte and astral characters over-represented; each map goes through URL::parse_query, FormUrlEncoded::parse and both echo endpoints via Server::process. The listed dependency defect (pct-then-late-code) is attributed precisely: fields it does not touch must still come back exactly.",
         "The library's own encoder is part of the round trip; Unicode whitespace other than U+0020 is outside 'printable text'.", "DESIGN.md §4 C17"),
 "C18": ("pbt", "exhaustive enumeration of 0-3-byte groups + seeded proptest round-trip against a reference RFC 4648 encoder",
         "Exploration with an exhaustive core: quick enumerates every input of length 0-2 and a 48^3 boundary cube of 3-byte groups, thorough every input of length 0-3 (16,843,009, flagged exhaustive in evidence); random strings cover every length residue; decoder negatives are sampled. The encoder works group by group, so the exhaustive core decides the encoder for all inputs up to concatenation; the rest is sampled.",
         "Trusts the harness's own 20-line RFC 4648 encoder (self-tested against the RFC vectors at start-up).", "DESIGN.md §4 C18"),
 "C19": ("pbt", "seeded proptest round-trip parse_json(to_json_string(x)) = x for a struct built from the library's traits, differential against serde_json (arbitrary precision)",
         "Exploration: 16k (quick) / 600k (thorough) values of a recursive struct implementing New/ToJSON/FromJSON in the README's style with every field kind present/absent (String, bool, i128, f64, nested object, array of objects, 15 typed arrays), nesting depth 0-4; the text must parse back to an equal value and must be read by serde_json as the same tree (integers exactly, floats by parsing the literal). One listed known finding (non-ASCII strings) is counted and excluded; 12% of the values carry non-ASCII text.",
         "The harness struct follows the documented pattern (an integer token is accepted for an f64 field); serde_json is the independent parser.", "DESIGN.md §4 C19"),
 "C20": ("pbt", "seeded proptest totality check per parsing entry point: structure-aware mutation of valid documents, raw bytes, deep nesting, thousands of lines; supervised workers catch panics, aborts and non-termination",
         "Exploration: 5k (quick) / 200k (thorough) inputs for each of 35 parsing entry points; every call must return Ok or Err. Panics are caught in-process; a stack overflow or abort kills the worker and is attributed to the in-flight case by the supervisor; a case that has not returned after 60 s (slowest legitimate case measured in evidence: under 1 s) is reported as hang:<entry point> because the statement includes termination.",
         "Inputs to &str/String entry points are lossily converted to UTF-8; 2 MiB stack as the server's workers; the two legacy underscore-prefixed readers without an error channel (Response::_parse_response, Range::_parse_multipart_body) are not counted as entry points the library offers.", "DESIGN.md §4 C20"),
}

# what the later rounds of seeded changes added to each check (DESIGN.md section 10.5), appended to the level text
ADDENDA = {
 "C01": "6 % of the targets are written without the leading slash (among them what a sibling's name has after the root's name); sibling files root+.bak / -private.txt / .html are planted; a quarter of the production-entry requests go to the real binary.",
 "C02": "After the first pass the tree is edited while the server is up (a file rewritten with another length, one deleted, files created where 404 was answered) and the affected paths are requested again; longer names of the special routes are requested; names extending special routes and the index page's name in other letter case occur as ordinary files; file modification times are generated (future, epoch start, before the epoch).",
 "C03": "8 % of the cases rewrite the file in place after it was served once; a 206 for a range outside the file must lie inside what one of the specs asked for, read with arbitrary precision.",
 "C04": "Sections far-beyond-the-buffer (requests 10 KB to 650 KB longer than the buffer through the real binary), aborted-before-accept (connections reset / half-sent and reset / closed in the backlog of the stopped binary, then a probe) and beside-an-idle-connection; a sound narrow pre-parser demands an error status for multipart forms with an unusable part disposition.",
 "C05": "Sections transport-binary (real TCP, slowly reading client, request tails of up to 700 KB written while the response is read) and paused-reader (32 MiB response, the reader stops for 16 s quick / up to 91 s thorough).",
 "C06": "Sections quiet-periods (6.5 s quick / up to 61 s thorough without client activity) and descriptor-exhaustion (floods of 100-200 silent connections against servers limited to 40-80 file descriptors).",
 "C07": "Section native-after-idle (pools idle for 0 ms to 6.5 s quick / 61 s thorough, then N-1 gated tasks and one reporting task, causal verdict); a quarter of the shuttle cases release the pool handle right after the last submission; shuttle's depth-first scheduler enumerates eleven small configurations.",
 "C08": "Network cases may hold 1-3 silent peers during the concurrent phase (differential, repeated verdict); section queued-for-a-long-while (a request waits 11 s quick / up to 61 s thorough behind a silent peer); fresh docroot / layered configuration modes; relative links below the root.",
 "C09": "A third of the in-process trees run under a generated restricted CORS configuration (HEAD = GET header for header; OPTIONS from a listed origin must carry the configured grants); Origins on the request's own host; preflights for header names with digits and punctuation; a quarter of the trees through the real binary.",
 "C10": "Section cold-start-burst (fresh process, up to 32 threads released into Server::process through one barrier).",
 "C11": "A third of the cases hand the configuration over as an rws.config.toml text through the library's reader; an unconfigured credentials flag is an absent variable in two thirds of its cases; max-age spellings -1, 0600, 7200.5, 1e3, abc, empty.",
 "C12": "Numeric settings draw from four value pools (smallest legal, powers of two, large); layout whitespace and comment styles of the file are generated.",
 "C13": "A fifth of the network sequences end with the served directory being removed by a third party and four more requests; generated modification times; index-page names in other letter case; link chains.",
 "C15": "Content types of the multipart family other than byteranges and near misses of it; long and non-ASCII header values.",
 "C17": "One form in twelve carries a filler field of 7 to 9.8 KB; the echo routes run whenever the whole request fits the 10000-byte buffer.",
 "C18": "Section low-entropy-strings (alphabets of one to three symbols incl. zero, runs, repeated short blocks); section encode-long (to 70,000 bytes).",
 "C20": "38 entry points now (Range::parse_content_range and the raw content-range reader added); Mut::Case flips letter case.",
}

NOT_YET = "check not built yet in this commit (see DESIGN.md §9 implementation order); will be claimed when its generator and oracle are in place"

def hook_commits():
    out = subprocess.run(["git", "-C", "/repo", "log", "--format=%H %s"], capture_output=True, text=True).stdout
    return [l.split()[0] for l in out.splitlines() if " verif hooks" in l or l.split(" ", 1)[1].startswith("verif hooks")]

m = {
 "version": 1,
 "setup_cmd": "./check --build",
 "hooks": {
   "guard": "--cfg rws_verif (event points + hook module), --cfg rws_verif_shuttle (thread pool compiled against shuttle's primitives)",
   "enable": "harness/build.rs emits cargo:rustc-cfg=rws_verif for the in-process route; the real binary is built with RUSTFLAGS='--cfg rws_verif' into /verif/.build/rws; sched/ build.rs emits rws_verif_shuttle",
   "baseline_off_cmd": "cd /repo && cargo test --workspace --no-fail-fast --offline",
   "source_commits": hook_commits(),
   "add_only": True,
 },
 "engines": [
   {"name": "pbt", "path": "harness/", "serves_properties": sorted(k for k, v in CHECKS.items() if "pbt" in v[0] or "net" in v[0]),
    "kind_free_text": "proptest 1.11 TestRunner (fixed seed from VERIF_SEED, shrinking, no persistence) driving the real rws code compiled in by path; supervised worker processes; explicit oracles (reference models, round-trips, differentials, invariants)"},
   {"name": "net", "path": "harness/src/fw/net.rs", "serves_properties": sorted(k for k, v in CHECKS.items() if "net" in v[0]),
    "kind_free_text": "the real rws binary (release, --cfg rws_verif, overflow checks and debug assertions on) started per case in a generated docroot; loopback client with fault injection (RST, half-sent, stalls), SIGSTOP/SIGCONT to own the acceptor's schedule, /proc thread names and exit status as logical signals"},
   {"name": "libfuzzer", "path": "fuzz/", "serves_properties": ["C04", "C14", "C16", "C20"],
    "kind_free_text": "cargo-fuzz 0.13 / libFuzzer targets (ASan, debug assertions) that compile harness/src/fw and harness/src/props by path and call the same oracle functions as the proptest checks (c04::judge_bytes, c14::judge_bytes, c16::eval, c20::eval) on a worker thread named like a pool worker; campaigns with a fixed number of runs per job via tools/fuzz_campaign.sh; triaged findings are committed to corpus/<cNN>/ and replayed by the section 'corpus' of the quick checks"},
   {"name": "shuttle", "path": "sched/", "serves_properties": ["C06", "C07"],
    "kind_free_text": "shuttle 0.9 random and PCT schedulers (seeded) over src/thread_pool/mod.rs compiled with --cfg rws_verif_shuttle; speaks the harness's worker protocol; failing schedules replay from shuttle's schedule string"},
 ],
 "checks": [],
 "not_applicable": [],
 "notes": "Exit codes of every command: 0 held (KNOWN-FINDING lines allowed), 1 violation (VIOLATION property=<id> replay=<path>), 2 inconclusive infrastructure outcome. Known findings: /verif/known_findings.txt. Replay: ./check <ID> --replay <file>.",
}
for pid in ALL:
    if pid in CHECKS:
        eng, tech, text, note, ref = CHECKS[pid]
        m["checks"].append({
          "property_id": pid,
          "quick_cmd": "./check %s quick" % pid,
          "thorough_cmd": "./check %s thorough" % pid,
          "evidence_file": "/verif/evidence/%s.json" % pid,
          "replay_cmd_template": "./check %s --replay {path}" % pid,
          "engine": eng,
          "level_claimed": {"category": "exploration", "text": (text + " Added by the later rounds of seeded changes: " + ADDENDA[pid]) if pid in ADDENDA else text, "design_ref": ref},
          "level_note": note,
          "technique": tech,
        })
    else:
        m["not_applicable"].append({"property_id": pid, "reason": NOT_YET})
json.dump(m, open("/verif/MANIFEST.json", "w"), indent=1)
print("wrote MANIFEST.json with", len(m["checks"]), "checks")
