#!/bin/bash
# usage: tools/seeded_check.sh <seeded-id-dir or patch> <CHECK-ID> [quick|thorough]
# Applies a seeded change to /repo, runs one check, and undoes the change straight afterwards.
set -u
P="$1"; [ -d "$P" ] && P="$P/patch.diff"
P="$(realpath "$P")"; ID="$2"; TIER="${3:-quick}"
git -C /repo diff --quiet || { echo "/repo has uncommitted changes"; exit 3; }
git -C /repo apply "$P" || { echo "PATCH-FAILED $P"; exit 3; }
/verif/check "$ID" "$TIER"; RC=$?
git -C /repo checkout -- .
git -C /repo status --short | head -3
echo "seeded_check: $P $ID $TIER -> exit $RC"
exit $RC
