#!/usr/bin/env python3
"""tools/mkreg.py <PROPERTY> <slug> <section> '<case json>' ['detail']  -> regressions/<PROPERTY>-<slug>.json (hand-written replay)"""
import json, sys
prop, slug, section, case = sys.argv[1:5]
detail = sys.argv[5] if len(sys.argv) > 5 else "hand-written regression"
v = {"property": prop, "section": section, "sig": "regression", "detail": detail, "case": json.loads(case)}
p = "/verif/regressions/%s-%s.json" % (prop, slug)
json.dump(v, open(p, "w"), indent=1)
print(p)
