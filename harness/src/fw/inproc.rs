//! In-process route: drive the real `Server::process` / `Server::process_request` on a mock transport.
#![allow(dead_code)]
use super::mock::{Mock, Transport};
use super::catch;
use crate::app::App;
use crate::application::Application;
use crate::core::New;
use crate::request::Request;
use crate::response::{Response, STATUS_CODE_REASON_PHRASE};
use crate::server::{Address, ConnectionInfo, Server};
use serde::{Deserialize, Serialize};
use std::net::SocketAddr;

#[derive(Clone, Copy, Debug, Serialize, Deserialize, PartialEq, Eq, Hash)]
pub enum Entry { Process, Legacy }

#[derive(Clone, Copy, Debug, Serialize, Deserialize, PartialEq, Eq, Hash)]
pub enum AppKind { Real, ReturnsErr, Fixed }

#[derive(Clone, Copy)]
pub struct ErrApp;
impl Application for ErrApp {
    fn execute(&self, _request: &Request, _connection: &ConnectionInfo) -> Result<Response, String> { Err("handler reports an error".to_string()) }
}

#[derive(Clone, Copy)]
pub struct FixedApp;
impl Application for FixedApp {
    fn execute(&self, request: &Request, _connection: &ConnectionInfo) -> Result<Response, String> {
        let header_list = crate::header::Header::get_header_list(request);
        let body = crate::range::Range::get_content_range(b"fixed application response".to_vec(), crate::mime_type::MimeType::TEXT_PLAIN.to_string());
        Ok(Response::get_response(STATUS_CODE_REASON_PHRASE.n200_ok, Some(header_list), Some(vec![body])))
    }
}

pub fn conn(request_size: i64) -> ConnectionInfo {
    ConnectionInfo { client: Address { ip: "127.0.0.1".into(), port: 5555 }, server: Address { ip: "127.0.0.1".into(), port: 7878 }, request_size }
}

pub struct ServeOut {
    pub out: Vec<u8>,
    /// Ok(result of Server::process) or Err((panic message, location))
    pub result: Result<Result<(), String>, (String, String)>,
    pub write_calls: usize,
    pub flush_calls: usize,
}

/// Implicit preconditions of real callers: named thread (the child runs on thread "0"), RWS_CONFIG_* set, cwd = docroot.
pub fn init_env() {
    for (k, _) in std::env::vars() { if k.starts_with("RWS_CONFIG_") { std::env::remove_var(k); } }
    crate::entry_point::set_default_values();
}

pub fn serve(req: &[u8], t: Transport, bufsize: i64, app: AppKind, entry: Entry) -> ServeOut {
    let mut m = Mock::new(req.to_vec(), t);
    let result = match entry {
        Entry::Process => catch(|| match app {
            AppKind::Real => Server::process(&mut m, conn(bufsize), App::new()),
            AppKind::ReturnsErr => Server::process(&mut m, conn(bufsize), ErrApp),
            AppKind::Fixed => Server::process(&mut m, conn(bufsize), FixedApp),
        }),
        Entry::Legacy => catch(|| {
            let peer: SocketAddr = "127.0.0.1:5555".parse().unwrap();
            let _ = Server::process_request(&mut m, peer);
            Ok(())
        }),
    };
    ServeOut { out: m.out, result, write_calls: m.write_calls, flush_calls: m.flush_calls }
}

// ---- the same requests through the real binary -------------------------------------------------------------------------------------
// Checks whose oracle only needs (request bytes -> response bytes) can send a share of their cases to the release binary over loopback:
// accept loop, pool hand-over, TcpStream reads and writes are then part of what is judged. One server per worker thread and docroot.
thread_local! {
    static BINARY: std::cell::RefCell<Option<super::net::Server>> = std::cell::RefCell::new(None);
    static BINARY_TROUBLE: std::cell::RefCell<Vec<String>> = std::cell::RefCell::new(vec![]);
}

/// Starts the binary with `docroot` as its working directory (2 workers, defaults otherwise); replaces a running one.
pub fn binary_start(docroot: &std::path::Path) -> Result<(), String> {
    binary_stop();
    let s = super::net::Server::start(&super::net::ServerOpts::new(docroot, 2))?;
    BINARY.with(|b| *b.borrow_mut() = Some(s));
    Ok(())
}
pub fn binary_stop() { BINARY.with(|b| *b.borrow_mut() = None); }
/// Connection failures and time-outs seen since the last call (the affected cases were judged on the in-process route instead).
pub fn binary_trouble() -> Vec<String> { BINARY_TROUBLE.with(|t| std::mem::take(&mut *t.borrow_mut())) }

/// What the binary did with one request.
pub enum BinaryAnswer {
    /// the exchange completed (possibly with zero bytes)
    Served(ServeOut),
    /// the request was sent twice and both times nothing at all came back within the limit although the connection stayed open:
    /// the server is waiting for something the client already said it would not send
    Silent,
    /// no binary on this thread, or the exchange failed for another reason (recorded as trouble: inconclusive, never a verdict)
    Unavailable,
}

thread_local! { static BINARY_SUSPECT: std::cell::Cell<bool> = std::cell::Cell::new(false); }

pub fn serve_binary_checked(req: &[u8]) -> BinaryAnswer {
    BINARY.with(|b| {
        let b = b.borrow();
        let s = match b.as_ref() { Some(s) => s, None => return BinaryAnswer::Unavailable };
        // 30 s for the first attempt; once a silent exchange has been seen on this thread later ones get 1 s (shrinking re-runs the failing case many times)
        let suspect = BINARY_SUSPECT.with(|x| x.get());
        let first = std::time::Duration::from_secs(if suspect { 1 } else { 30 });
        let x = s.roundtrip(req, first);
        match x.outcome {
            super::net::Outcome::Closed | super::net::Outcome::Reset(_) => BinaryAnswer::Served(ServeOut { out: x.bytes, result: Ok(Ok(())), write_calls: 0, flush_calls: 0 }),
            super::net::Outcome::TimedOut if x.bytes.is_empty() => {
                BINARY_SUSPECT.with(|v| v.set(true));
                let again = s.roundtrip(req, std::time::Duration::from_secs(if suspect { 1 } else { 10 }));
                match again.outcome {
                    super::net::Outcome::TimedOut if again.bytes.is_empty() => BinaryAnswer::Silent,
                    super::net::Outcome::Closed | super::net::Outcome::Reset(_) => BinaryAnswer::Served(ServeOut { out: again.bytes, result: Ok(Ok(())), write_calls: 0, flush_calls: 0 }),
                    other => { BINARY_TROUBLE.with(|t| t.borrow_mut().push(format!("{:?} after {} response bytes (second attempt)", other, again.bytes.len()))); BinaryAnswer::Unavailable }
                }
            }
            other => { BINARY_TROUBLE.with(|t| t.borrow_mut().push(format!("{:?} after {} response bytes", other, x.bytes.len()))); BinaryAnswer::Unavailable }
        }
    })
}

/// A request sent while `idle` other connections are open and silent. Some(true): answered while they were open. Some(false): twice in a row the
/// answer arrived only after the silent connections had been closed (it was waiting behind them - a causal signal, not a timer). None: no binary,
/// or the observation was not repeatable / did not complete (trouble is recorded).
pub fn binary_answers_beside_idle_connections(req: &[u8], idle: usize) -> Option<bool> {
    use std::io::Write;
    BINARY.with(|b| {
        let b = b.borrow();
        let s = b.as_ref()?;
        let limit = std::time::Duration::from_secs(3);
        let mut waited_behind = 0;
        for _attempt in 0..2 {
            let mut held = vec![];
            for _ in 0..idle { if let Ok(c) = s.connect() { held.push(c); } }
            std::thread::sleep(std::time::Duration::from_millis(10));
            let mut c = match s.connect() { Ok(c) => c, Err(e) => { BINARY_TROUBLE.with(|t| t.borrow_mut().push(format!("connect: {}", e))); return None; } };
            if c.write_all(req).is_err() { return None; }
            if req.is_empty() { let _ = c.shutdown(std::net::Shutdown::Write); }
            let first = super::net::read_all(&mut c, limit);
            if !(first.outcome == super::net::Outcome::TimedOut && first.bytes.is_empty()) { return Some(true); }
            held.clear();
            let second = super::net::read_all(&mut c, limit);
            if second.bytes.is_empty() && second.outcome == super::net::Outcome::TimedOut { BINARY_TROUBLE.with(|t| t.borrow_mut().push("no answer beside idle connections nor after they were closed".to_string())); return None; }
            waited_behind += 1;
        }
        if waited_behind == 2 { Some(false) } else { None }
    })
}

/// None when no binary is running on this thread, or when the exchange did not complete (recorded as trouble: inconclusive, never a verdict).
pub fn serve_binary(req: &[u8]) -> Option<ServeOut> {
    match serve_binary_checked(req) {
        BinaryAnswer::Served(o) => Some(o),
        BinaryAnswer::Silent => { BINARY_TROUBLE.with(|t| t.borrow_mut().push("no response bytes within the limit, twice".to_string())); None }
        BinaryAnswer::Unavailable => None,
    }
}

/// `binary` cases go to the running binary when there is one, everything else (and every fallback) to Server::process on the mock transport.
pub fn serve_routed(req: &[u8], binary: bool, entry: Entry) -> ServeOut {
    if binary && entry == Entry::Process { if let Some(o) = serve_binary(req) { return o; } }
    serve(req, Transport::default(), 10000, AppKind::Real, entry)
}

pub fn get(path: &str) -> Vec<u8> { format!("GET {} HTTP/1.1\r\nHost: localhost\r\n\r\n", path).into_bytes() }
