//! In-process route: drive the real `Server::process` / `Server::process_request` on a mock transport.
#![allow(dead_code)]
use super::mock::{Mock, Transport};
use super::catch;
use crate::app::App;
use crate::application::Application;
use crate::core::New;
use crate::request::Request;
use crate::response::{Response, STATUS_CODE_REASON_PHRASE};
use crate::server::{Address, ConnectionInfo, Server};
use serde::{Deserialize, Serialize};
use std::net::SocketAddr;

#[derive(Clone, Copy, Debug, Serialize, Deserialize, PartialEq, Eq, Hash)]
pub enum Entry { Process, Legacy }

#[derive(Clone, Copy, Debug, Serialize, Deserialize, PartialEq, Eq, Hash)]
pub enum AppKind { Real, ReturnsErr, Fixed }

#[derive(Clone, Copy)]
pub struct ErrApp;
impl Application for ErrApp {
    fn execute(&self, _request: &Request, _connection: &ConnectionInfo) -> Result<Response, String> { Err("handler reports an error".to_string()) }
}

#[derive(Clone, Copy)]
pub struct FixedApp;
impl Application for FixedApp {
    fn execute(&self, request: &Request, _connection: &ConnectionInfo) -> Result<Response, String> {
        let header_list = crate::header::Header::get_header_list(request);
        let body = crate::range::Range::get_content_range(b"fixed application response".to_vec(), crate::mime_type::MimeType::TEXT_PLAIN.to_string());
        Ok(Response::get_response(STATUS_CODE_REASON_PHRASE.n200_ok, Some(header_list), Some(vec![body])))
    }
}

pub fn conn(request_size: i64) -> ConnectionInfo {
    ConnectionInfo { client: Address { ip: "127.0.0.1".into(), port: 5555 }, server: Address { ip: "127.0.0.1".into(), port: 7878 }, request_size }
}

pub struct ServeOut {
    pub out: Vec<u8>,
    /// Ok(result of Server::process) or Err((panic message, location))
    pub result: Result<Result<(), String>, (String, String)>,
    pub write_calls: usize,
    pub flush_calls: usize,
}

/// Implicit preconditions of real callers: named thread (the child runs on thread "0"), RWS_CONFIG_* set, cwd = docroot.
pub fn init_env() {
    for (k, _) in std::env::vars() { if k.starts_with("RWS_CONFIG_") { std::env::remove_var(k); } }
    crate::entry_point::set_default_values();
}

pub fn serve(req: &[u8], t: Transport, bufsize: i64, app: AppKind, entry: Entry) -> ServeOut {
    let mut m = Mock::new(req.to_vec(), t);
    let result = match entry {
        Entry::Process => catch(|| match app {
            AppKind::Real => Server::process(&mut m, conn(bufsize), App::new()),
            AppKind::ReturnsErr => Server::process(&mut m, conn(bufsize), ErrApp),
            AppKind::Fixed => Server::process(&mut m, conn(bufsize), FixedApp),
        }),
        Entry::Legacy => catch(|| {
            let peer: SocketAddr = "127.0.0.1:5555".parse().unwrap();
            let _ = Server::process_request(&mut m, peer);
            Ok(())
        }),
    };
    ServeOut { out: m.out, result, write_calls: m.write_calls, flush_calls: m.flush_calls }
}

pub fn get(path: &str) -> Vec<u8> { format!("GET {} HTTP/1.1\r\nHost: localhost\r\n\r\n", path).into_bytes() }
