//! G-REQ: request grammar with structural hostility and byte-level mutators; the harness's lenient request-line pre-parser.
#![allow(dead_code)]
use super::tree::{EntrySpec, TreeSpec};
use super::util::{pick_idx, Bytes};
use proptest::prelude::*;
use serde::{Deserialize, Serialize};

pub const METHODS: [&str; 9] = ["GET", "HEAD", "POST", "PUT", "DELETE", "CONNECT", "OPTIONS", "TRACE", "PATCH"];
pub const VERSIONS: [&str; 4] = ["HTTP/0.9", "HTTP/1.0", "HTTP/1.1", "HTTP/2.0"];

#[derive(Clone, Debug, Serialize, Deserialize, PartialEq, Eq, Hash)]
pub struct Base {
    pub method: String,
    pub target: String,
    pub version: String,
    pub headers: Vec<(String, Bytes)>,
    pub body: Bytes,
}

#[derive(Clone, Debug, Serialize, Deserialize, PartialEq, Eq, Hash)]
pub enum Mut {
    /// cut the request after a fraction of its length
    Truncate(u16),
    DeleteAt(u16, u8),
    InsertAt(u16, Bytes),
    ReplaceAt(u16, Bytes),
    /// remove the n-th CR / duplicate the n-th LF / remove the n-th LF
    DropCr(u16), DupLf(u16), DropLf(u16),
    /// flip one bit
    Flip(u16, u8),
    /// append k filler header lines ("a:b" style, `width` bytes each) before the blank line
    ManyHeaders { count: u16, width: u8 },
    /// pad the body up to (buffer size + delta)
    Oversize(u16),
    /// replace the n-th run of ASCII digits of the document (a length, offset, size, port, status, JSON number ...) by the k-th extreme value
    Number(u16, u8),
    /// change the case of the n-th ASCII letter (keywords, units, names, hex digits and tokens are where case matters)
    Case(u16),
}

pub const EXTREME_NUMBERS: [&str; 30] = ["0", "1", "-1", "2147483647", "2147483648", "4294967295", "4294967296", "9223372036854775807", "9223372036854775808", "18446744073709551615", "18446744073709551616",
    "170141183460469231731687303715884105727", "340282366920938463463374607431768211456", "99999999999999999999999999999999999999999999", "", "00000000000000000005", "1e9", "0x10", "+5", " 7", "1.5", "-0", "65535", "65536",
    // sizes no machine can allocate but every size type can hold (2^40, 2^48, 2^62, isize::MAX - 1), and just above what fits a 16-bit / 31-bit length
    "1099511627776", "281474976710656", "4611686018427387904", "9223372036854775806", "32768", "1073741824"];

#[derive(Clone, Debug, Serialize, Deserialize, PartialEq, Eq, Hash)]
pub struct ReqCase { pub base: Base, pub muts: Vec<Mut> }

impl Base {
    pub fn render(&self) -> Vec<u8> {
        let mut v = Vec::new();
        v.extend_from_slice(self.method.as_bytes()); v.push(b' ');
        v.extend_from_slice(self.target.as_bytes()); v.push(b' ');
        v.extend_from_slice(self.version.as_bytes()); v.extend_from_slice(b"\r\n");
        for (n, val) in &self.headers { v.extend_from_slice(n.as_bytes()); v.extend_from_slice(b": "); v.extend_from_slice(&val.0); v.extend_from_slice(b"\r\n"); }
        v.extend_from_slice(b"\r\n");
        v.extend_from_slice(&self.body.0);
        v
    }
}

fn nth_pos(v: &[u8], byte: u8, n: u16) -> Option<usize> {
    let pos: Vec<usize> = v.iter().enumerate().filter(|(_, b)| **b == byte).map(|(i, _)| i).collect();
    if pos.is_empty() { None } else { Some(pos[pick_idx(n, pos.len())]) }
}

impl ReqCase {
    pub fn render(&self, bufsize: usize) -> Vec<u8> {
        let mut v = self.base.render();
        apply_muts(&mut v, &self.muts, bufsize);
        v
    }
}

/// Apply byte-level mutations to any document.
pub fn apply_muts(v: &mut Vec<u8>, muts: &[Mut], bufsize: usize) {
    for m in muts {
        match m {
            Mut::Truncate(f) => { let k = pick_idx(*f, v.len() + 1); v.truncate(k); }
            Mut::DeleteAt(p, n) => { if !v.is_empty() { let i = pick_idx(*p, v.len()); let e = (i + *n as usize + 1).min(v.len()); v.drain(i..e); } }
            Mut::InsertAt(p, b) => { let i = pick_idx(*p, v.len() + 1); let tail = v.split_off(i); v.extend_from_slice(&b.0); v.extend_from_slice(&tail); }
            Mut::ReplaceAt(p, b) => { if !v.is_empty() { let i = pick_idx(*p, v.len()); for (k, x) in b.0.iter().enumerate() { if i + k < v.len() { v[i + k] = *x; } } } }
            Mut::DropCr(n) => { if let Some(i) = nth_pos(v, b'\r', *n) { v.remove(i); } }
            Mut::DropLf(n) => { if let Some(i) = nth_pos(v, b'\n', *n) { v.remove(i); } }
            Mut::DupLf(n) => { if let Some(i) = nth_pos(v, b'\n', *n) { v.insert(i, b'\n'); } }
            Mut::Flip(p, bit) => { if !v.is_empty() { let i = pick_idx(*p, v.len()); v[i] ^= 1 << (bit % 8); } }
            Mut::Case(n) => { let pos: Vec<usize> = v.iter().enumerate().filter(|(_, b)| b.is_ascii_alphabetic()).map(|(i, _)| i).take(4096).collect(); if !pos.is_empty() { let i = pos[pick_idx(*n, pos.len())]; v[i] ^= 0x20; } }
            Mut::ManyHeaders { count, width } => {
                let at = super::util::find_sub(v, b"\r\n\r\n").map(|p| p + 2).unwrap_or(v.len());
                let tail = v.split_off(at);
                let w = (*width).max(2) as usize;
                for k in 0..*count as usize {
                    // "a:" + filler, then LF only for the narrowest lines, CRLF otherwise
                    let mut line = vec![b'a' + (k % 26) as u8, b':'];
                    while line.len() + 1 < w { line.push(b'x'); }
                    if w <= 3 { line.truncate(w - 1); line.push(b'\n'); } else { line.truncate(w - 2); line.extend_from_slice(b"\r\n"); }
                    v.extend_from_slice(&line);
                }
                v.extend_from_slice(&tail);
            }
            Mut::Number(n, k) => {
                // runs of digits, in order of appearance
                let mut runs: Vec<(usize, usize)> = vec![];
                let mut i = 0;
                while i < v.len() { if v[i].is_ascii_digit() { let st = i; while i < v.len() && v[i].is_ascii_digit() { i += 1; } runs.push((st, i)); } else { i += 1; } }
                if !runs.is_empty() {
                    let (st, en) = runs[pick_idx(*n, runs.len())];
                    let tail = v.split_off(en);
                    v.truncate(st);
                    v.extend_from_slice(EXTREME_NUMBERS[*k as usize % EXTREME_NUMBERS.len()].as_bytes());
                    v.extend_from_slice(&tail);
                }
            }
            // three quarters of the values: up to 3000 bytes beyond the buffer; the top quarter: up to 650 KB beyond it
            Mut::Oversize(delta) => { let want = bufsize + if *delta < 49152 { *delta as usize % 3000 } else { (*delta as usize - 49152) * 40 }; while v.len() < want { v.push(b'A' + (v.len() % 26) as u8); } }
        }
    }
}

/// What the harness's lenient pre-parser says about the request line of the bytes the server will see.
#[derive(Clone, Debug, PartialEq, Eq)]
pub enum LineClass {
    /// known method (exact upper case), target, known version (exact), exactly three fields
    Valid { method: String, target: String },
    /// must be rejected: not UTF-8, fewer than three fields, or (three clean fields and) unknown method / version even ignoring case
    MustReject(&'static str),
    /// everything else: lower case, extra blanks, tabs ... (no status is demanded)
    Unspecified { method_guess: String },
}

pub fn classify_request_line(seen: &[u8]) -> LineClass {
    let terminated = seen.iter().any(|b| *b == b'\n');
    let end = seen.iter().position(|b| *b == b'\n').map(|p| p + 1).unwrap_or(seen.len());
    let line = &seen[..end];
    let l = match std::str::from_utf8(line) { Ok(l) => l, Err(_) => return LineClass::MustReject("request-line-not-utf8") };
    let l = l.trim_end_matches(|c| c == '\r' || c == '\n');
    let t = l.trim();
    if t.is_empty() { return LineClass::MustReject("request-line-empty"); }
    let fields: Vec<&str> = t.split(' ').collect();
    if fields.len() < 3 { return LineClass::MustReject("request-line-fewer-than-three-fields"); }
    let method_guess = fields[0].to_uppercase();
    let odd = t != l || t.chars().any(|c| (c.is_whitespace() && c != ' ') || c == '\0') || fields.len() > 3 || fields.iter().any(|f| f.is_empty());
    if odd { return LineClass::Unspecified { method_guess }; }
    let (m, tg, v) = (fields[0], fields[1], fields[2]);
    // a request line without its terminator is incomplete: the server sees it followed by the zero padding of its buffer; outcome not fixed
    if !terminated { return LineClass::Unspecified { method_guess }; }
    if METHODS.contains(&m) && VERSIONS.contains(&v) { return LineClass::Valid { method: m.to_string(), target: tg.to_string() }; }
    if !METHODS.contains(&m.to_uppercase().as_str()) { return LineClass::MustReject("unknown-method"); }
    if !VERSIONS.contains(&v.to_uppercase().as_str()) { return LineClass::MustReject("unknown-version"); }
    LineClass::Unspecified { method_guess }
}

// ---- fixed small docroot used by the C04/C05/C10 campaigns --------------------------------------
pub fn fixed_tree() -> TreeSpec {
    TreeSpec {
        levels_above: 2, root_name: "docroot".into(), root_index: None, root_404: None, salt: 0x5eed,
        entries: vec![
            EntrySpec::File { name: "a.txt".into(), size: 10 },
            EntrySpec::File { name: "big.bin".into(), size: 70000 },
            // large enough for (size x number of ranges that fit a 10000-byte request) to pass 2^31 and 2^32
            EntrySpec::File { name: "huge.bin".into(), size: 3 << 20 },
            EntrySpec::File { name: "page.html".into(), size: 300 },
            EntrySpec::File { name: "empty.bin".into(), size: 0 },
            EntrySpec::File { name: "é.txt".into(), size: 64 },
            EntrySpec::File { name: "noext".into(), size: 100 },
            EntrySpec::Dir { name: "sub".into(), index: Some(200), html_twin: None, entries: vec![EntrySpec::File { name: "x.json".into(), size: 50 },
                // links with relative texts below the root: their texts resolve from the link's own directory, not from the server's working directory
                EntrySpec::LinkToFile { name: "rel.json".into(), target: 7, style: 0 },
                EntrySpec::Dir { name: "deep".into(), index: None, html_twin: None, entries: vec![EntrySpec::File { name: "y.png".into(), size: 4097 }, EntrySpec::LinkToFile { name: "up.txt".into(), target: 0, style: 2 }] }] },
            EntrySpec::Dir { name: "noindex".into(), index: None, html_twin: None, entries: vec![EntrySpec::File { name: "z.css".into(), size: 20 }] },
            EntrySpec::LinkToFile { name: "link.txt".into(), target: 0, style: 0 },
            EntrySpec::LinkToOutsideDir { name: "outdir".into() },
        ],
    }
}

pub const FIXED_PATHS: [&str; 25] = ["/sub/rel.json", "/sub/deep/up.txt", "/", "/a.txt", "/big.bin", "/huge.bin", "/page.html", "/page", "/empty.bin", "/é.txt", "/noext", "/sub", "/sub/", "/sub/index.html", "/sub/x.json", "/sub/deep/y.png",
    "/noindex", "/noindex/", "/noindex/z.css", "/link.txt", "/outdir/f.txt", "/missing", "/style.css", "/script.js", "/favicon.svg"];

// ---- strategies -----------------------------------------------------------------------------------
pub fn method_strategy() -> impl Strategy<Value = String> {
    prop_oneof![
        14 => prop::sample::select(vec!["GET", "GET", "GET", "GET", "HEAD", "POST", "PUT", "DELETE", "CONNECT", "OPTIONS", "TRACE", "PATCH"]).prop_map(|s| s.to_string()),
        2 => prop::sample::select(vec!["get", "head", "Post", "options"]).prop_map(|s| s.to_string()),
        1 => prop::sample::select(vec!["FOO", "GETT", "", "G", "PROPFIND", "GÉT", "\u{0}GET"]).prop_map(|s| s.to_string()),
    ]
}

pub fn version_strategy() -> impl Strategy<Value = String> {
    prop_oneof![
        14 => prop::sample::select(vec!["HTTP/1.1", "HTTP/1.1", "HTTP/1.1", "HTTP/1.0", "HTTP/0.9", "HTTP/2.0"]).prop_map(|s| s.to_string()),
        1 => prop::sample::select(vec!["http/1.1", "HTTP/1.2", "HTTP/3", "HTTP", "", "HTTP/1.1 ", "HTTP/1.1x"]).prop_map(|s| s.to_string()),
    ]
}

pub fn target_strategy() -> impl Strategy<Value = String> {
    let q = prop_oneof![
        4 => Just("".to_string()), 1 => Just("?q=1".to_string()), 1 => Just("#f".to_string()), 1 => Just("?a=b&c=d#e".to_string()), 1 => Just("?".to_string()), 1 => Just("?%".to_string()),
        1 => Just("?a=%zz&=&&b".to_string()), 1 => Just("?name=f.bin&lastModified=1&size=10".to_string()),
    ];
    prop_oneof![
        10 => (prop::sample::select(FIXED_PATHS.to_vec()), q.clone()).prop_map(|(p, q)| format!("{}{}", p, q)),
        3 => (prop::sample::select(vec!["/form-get-method", "/form-url-encoded-enctype-post-method", "/form-multipart-enctype-post-method", "/file-upload/initiate"]), q.clone()).prop_map(|(p, q)| format!("{}{}", p, q)),
        // targets without a leading slash and other non-origin forms
        3 => prop::sample::select(vec!["x", "?", "#", "@h/a.txt", ":abc/", "http://h/a.txt", "//h/a.txt", "*", "a.txt", "h:99999999999999999999/a.txt", "http://h:x/", "http://[::1]:80/a.txt", "http://u:p@h:8/a.txt", "?q", "#?", ":/", "@", "http://", "//", "/.", "h:/a.txt", "h:-1/a.txt", "[::1]/a.txt", "user@:80/"]).prop_map(|s| s.to_string()),
        1 => "[ -~&&[^ ]]{1,40}",
        1 => proptest::collection::vec(prop::sample::select(vec!["/", "a", "%", "?", "#", ":", "@", ".", "é", "\\", "=", "&", "+", ";", "[", "]", "%00", "%2e"]), 1..30).prop_map(|v| v.concat()),
        1 => (1usize..12000).prop_map(|n| format!("/{}", "a".repeat(n))),
        1 => long_text().prop_map(|b| format!("/{}", String::from_utf8_lossy(&b.0).replace(' ', "_"))),
        1 => long_text().prop_map(|b| format!("/a.txt?q={}", String::from_utf8_lossy(&b.0).replace(' ', "+"))),
        1 => (1usize..3000).prop_map(|n| format!("/{}", "a/".repeat(n))),
        1 => (1usize..3000).prop_map(|n| format!("/a.txt?{}", "k=v&".repeat(n))),
    ]
}

fn hostile_text() -> impl Strategy<Value = Bytes> {
    prop_oneof![
        2 => prop::sample::select(vec!["https://foo.example", "null", "*", "", " ", "a: b", "a,b", "http://x\ry", "http://x\ny", "x\r\nInjected: 1", "x\nInjected: 1", "x\rInjected: 1", "\0", "x\0y", ": ", ":", "\t", "é", "a\r\n\r\nHTTP/1.1 200 OK\r\n\r\n"]).prop_map(|s| Bytes(s.as_bytes().to_vec())),
        1 => proptest::collection::vec(any::<u8>(), 0..40).prop_map(|mut v| { v.retain(|b| *b != b'\n'); Bytes(v) }),
        1 => "[ -~]{0,60}".prop_map(|s| Bytes(s.into_bytes())),
        // long values: a short ASCII prefix (so that multi-byte characters fall on every byte offset) + a unit repeated up to a length around the
        // usual cut-off points (64 .. 8192 bytes) - single- and multi-byte characters, mixed
        1 => long_text(),
    ]
}

pub fn long_text() -> impl Strategy<Value = Bytes> {
    ("[a-z]{0,3}", prop::sample::select(vec!["a", "é", "中", "😀", "aé", "a 中", "%41", "é😀", "Ã©", "ÿ"]), prop::sample::select(vec![63usize, 64, 65, 127, 128, 129, 255, 256, 257, 300, 511, 512, 513, 1000, 1023, 1024, 1025, 2000, 4095, 4096, 4097, 8000]), 0usize..4)
        .prop_map(|(pre, unit, len, extra)| { let mut v = pre.into_bytes(); while v.len() < len + extra { v.extend_from_slice(unit.as_bytes()); } Bytes(v) })
}

pub fn range_value() -> impl Strategy<Value = Bytes> {
    let num = prop_oneof![
        4 => (0u64..12).prop_map(|n| n.to_string()), 1 => Just("9".to_string()), 1 => Just("10".to_string()), 1 => Just("11".to_string()), 1 => Just("69999".to_string()), 1 => Just("70000".to_string()),
        1 => Just("9223372036854775807".to_string()), 1 => Just("9223372036854775808".to_string()), 1 => Just("18446744073709551615".to_string()), 1 => Just("18446744073709551616".to_string()),
        1 => Just("".to_string()), 1 => Just("x".to_string()), 1 => Just("-1".to_string()), 1 => Just("1e3".to_string()), 1 => Just(" 3".to_string()), 1 => Just("99999999999999999999999999".to_string()),
    ];
    let spec = prop_oneof![
        3 => (num.clone(), num.clone()).prop_map(|(a, b)| format!("{}-{}", a, b)),
        1 => num.clone().prop_map(|a| format!("{}-", a)),
        1 => num.clone().prop_map(|a| format!("-{}", a)),
        1 => (num.clone(), num.clone(), num.clone()).prop_map(|(a, b, c)| format!("{}-{}-{}", a, b, c)),
        1 => Just("".to_string()), 1 => Just("-".to_string()), 1 => Just("--".to_string()),
    ];
    (prop::sample::select(vec!["bytes=", "bytes=", "bytes=", "bytes =", "byte=", "", "bytes", "BYTES=", "bytes==", "items="]), proptest::collection::vec(spec, 1..5), prop::sample::select(vec![",", ", ", " ,", ",,"]))
        .prop_map(|(u, s, sep)| Bytes(format!("{}{}", u, s.join(sep)).into_bytes()))
}

/// Header names a client can be expected to send: the registered request headers browsers and proxies use, every client hint the server
/// advertises in Accept-CH / Critical-CH / Vary (a client that honours the advertisement sends exactly those), and the names of the server's
/// own response headers (nothing stops a client from sending them). Values: plausible ones and hostile text.
pub const HEADER_VOCABULARY: [&str; 78] = [
    "Accept", "Accept-Charset", "Accept-Encoding", "Accept-Language", "Authorization", "Cache-Control", "Connection", "Cookie", "Date", "DNT", "Expect", "Forwarded", "From",
    "If-Match", "If-Modified-Since", "If-None-Match", "If-Range", "If-Unmodified-Since", "Keep-Alive", "Max-Forwards", "Pragma", "Proxy-Authorization", "Referer", "TE", "Trailer",
    "Transfer-Encoding", "Upgrade", "Upgrade-Insecure-Requests", "User-Agent", "Via", "X-Forwarded-For", "X-Forwarded-Host", "X-Forwarded-Proto", "X-Requested-With",
    "Sec-Fetch-Dest", "Sec-Fetch-Mode", "Sec-Fetch-Site", "Sec-Fetch-User", "Content-Encoding", "Content-Disposition", "Content-Range", "Content-Language",
    // client hints (rws advertises the first twelve)
    "Sec-CH-UA-Arch", "Sec-CH-UA-Bitness", "Sec-CH-UA-Full-Version-List", "Sec-CH-UA-Model", "Sec-CH-UA-Platform-Version", "Downlink", "ECT", "RTT", "Save-Data", "Device-Memory",
    "Sec-CH-Prefers-Reduced-Motion", "Sec-CH-Prefers-Color-Scheme", "Sec-CH-UA", "Sec-CH-UA-Mobile", "Sec-CH-UA-Platform", "DPR", "Width", "Viewport-Width",
    // response-side names sent by a client
    "Accept-CH", "Critical-CH", "Vary", "Accept-Ranges", "X-Content-Type-Options", "X-Frame-Options", "Access-Control-Allow-Origin", "Access-Control-Allow-Credentials",
    "Access-Control-Allow-Methods", "Access-Control-Allow-Headers", "Access-Control-Expose-Headers", "Access-Control-Max-Age", "Last-Modified-Unix-Epoch-Nanos", "Date-Unix-Epoch-Nanos",
    "Server", "Location", "ETag", "Allow",
];

pub fn headers_strategy() -> impl Strategy<Value = Vec<(String, Bytes)>> {
    let plausible = prop::sample::select(vec!["1", "on", "?1", "4g", "8", "0.5", "\"x86\"", "\"64\"", "dark", "reduce", "*/*", "gzip, deflate", "en", "keep-alive", "close", "no-cache", "100-continue", "chunked", "bytes", "nosniff", "*", "Origin", "max-age=0", "Wed, 21 Oct 2015 07:28:00 GMT", "\"abc\"", ""]).prop_map(|s| Bytes(s.as_bytes().to_vec()));
    let vocab_name = (prop::sample::select(HEADER_VOCABULARY.to_vec()), 0u8..4).prop_map(|(n, c)| match c { 0 => n.to_lowercase(), 1 => n.to_uppercase(), _ => n.to_string() });
    let one = prop_oneof![
        3 => (vocab_name.clone(), plausible),
        1 => (vocab_name, hostile_text()),
        3 => Just(("Host".to_string(), Bytes(b"localhost".to_vec()))),
        2 => hostile_text().prop_map(|v| ("Host".to_string(), v)),
        4 => hostile_text().prop_map(|v| ("Origin".to_string(), v)),
        2 => hostile_text().prop_map(|v| ("Access-Control-Request-Method".to_string(), v)),
        2 => hostile_text().prop_map(|v| ("Access-Control-Request-Headers".to_string(), v)),
        5 => range_value().prop_map(|v| ("Range".to_string(), v)),
        1 => range_value().prop_map(|v| ("range".to_string(), v)),
        2 => prop::sample::select(vec!["application/x-www-form-urlencoded", "multipart/form-data; boundary=XB", "multipart/form-data", "multipart/form-data; boundary=", "multipart/form-data; boundary=--", "text/plain", "APPLICATION/X-WWW-FORM-URLENCODED", "multipart/form-data; boundary=\u{0}"]).prop_map(|s| ("Content-Type".to_string(), Bytes(s.as_bytes().to_vec()))),
        1 => hostile_text().prop_map(|v| ("Content-Type".to_string(), v)),
        3 => prop::sample::select(vec!["0", "5", "a", "", "-1", "99999999999999999999999999", "1 2", "0x10", "18446744073709551615", "18446744073709551616", " 7", "7 "]).prop_map(|s| ("Content-Length".to_string(), Bytes(s.as_bytes().to_vec()))),
        // a length field with any of the extreme numbers (what a body reader sizes, counts down or adds to)
        2 => prop::sample::select(EXTREME_NUMBERS.to_vec()).prop_map(|s| ("Content-Length".to_string(), Bytes(s.as_bytes().to_vec()))),
        2 => ("[A-Za-z][A-Za-z0-9-]{0,20}", hostile_text()),
        1 => ("[ -~&&[^:]]{0,12}", hostile_text()),
    ];
    proptest::collection::vec(one, 0..8)
}

pub fn multipart_body() -> impl Strategy<Value = Bytes> {
    let part = prop_oneof![
        4 => ("[a-z]{1,6}", "[ -~]{0,20}").prop_map(|(n, v)| format!("Content-Disposition: form-data; name=\"{}\"\r\n\r\n{}\r\n", n, v).into_bytes()),
        1 => ("[a-z]{1,6}", proptest::collection::vec(any::<u8>(), 0..30)).prop_map(|(n, v)| { let mut b = format!("Content-Disposition: form-data; name=\"{}\"; filename=\"f.bin\"\r\nContent-Type: application/octet-stream\r\n\r\n", n).into_bytes(); b.extend_from_slice(&v); b.extend_from_slice(b"\r\n"); b }),
        1 => Just(b"Content-Disposition: form-data\r\n\r\nv\r\n".to_vec()),
        // dispositions that are none: another type, a bare parameter, parameters the endpoint has no use for
        1 => prop::sample::select(vec!["file; name=\"a\"", "x-unknown; name=\"a\"", "form-data; name", "form-data; name=\"a\"; extra=\"b\"", "Form-Data; name=\"a\"", "form-data; filename=\"f\""]).prop_map(|d| format!("Content-Disposition: {}\r\n\r\nv\r\n", d).into_bytes()),
        1 => Just(b"X-Other: 1\r\n\r\nv\r\n".to_vec()),
        1 => Just(b"\r\nv\r\n".to_vec()),
        1 => Just(b"Content-Disposition: form-data; name=\"a\"\r\n".to_vec()),
        1 => Just(b"Content-Disposition form-data\r\n\r\nv\r\n".to_vec()),
        1 => Just(b"Content-Disposition: form-data; name=\"a\"\r\n\r\n".to_vec()),
    ];
    (proptest::collection::vec(part, 0..4), prop::sample::select(vec!["--XB--\r\n", "--XB--\r\n", "--XB--\r\n", "--XB--", "--XB--", "--XB\r\n", "", "XB"]), prop::sample::select(vec!["--XB\r\n", "--XB\r\n", "--XB\r\n", "--XB\r\n", "XB\r\n", "", "--YB\r\n"]))
        .prop_map(|(parts, end, start)| { let mut b = start.as_bytes().to_vec(); for (i, p) in parts.iter().enumerate() { if i > 0 { b.extend_from_slice(b"--XB\r\n"); } b.extend_from_slice(p); } b.extend_from_slice(end.as_bytes()); Bytes(b) })
}

pub fn body_strategy() -> impl Strategy<Value = Bytes> {
    prop_oneof![
        6 => Just(Bytes(vec![])),
        2 => "[a-z]{1,5}=[a-z0-9%+]{0,8}(&[a-z]{1,5}=[ -~]{0,8}){0,3}".prop_map(|s| Bytes(s.into_bytes())),
        2 => proptest::collection::vec(any::<u8>(), 0..60).prop_map(Bytes),
        2 => multipart_body(),
        1 => Just(Bytes(b"a=%ff%fe&b=\xff\xfe".to_vec())),
        1 => Just(Bytes(b"=&&==&".to_vec())),
    ]
}

/// Coherent valid-ish requests to each endpoint (so that mutation reaches the handlers' logic).
pub fn coherent_base() -> impl Strategy<Value = Base> {
    prop_oneof![
        3 => (prop::sample::select(FIXED_PATHS.to_vec()), proptest::option::weighted(0.4, range_value()), proptest::option::weighted(0.3, hostile_text())).prop_map(|(p, r, o)| {
            let mut h = vec![("Host".to_string(), Bytes(b"localhost".to_vec()))];
            if let Some(r) = r { h.push(("Range".to_string(), r)); }
            if let Some(o) = o { h.push(("Origin".to_string(), o)); }
            Base { method: "GET".into(), target: p.to_string(), version: "HTTP/1.1".into(), headers: h, body: Bytes(vec![]) }
        }),
        1 => body_strategy().prop_map(|b| Base { method: "POST".into(), target: "/form-url-encoded-enctype-post-method".into(), version: "HTTP/1.1".into(), headers: vec![("Content-Type".into(), Bytes(b"application/x-www-form-urlencoded".to_vec()))], body: b }),
        2 => multipart_body().prop_map(|b| Base { method: "POST".into(), target: "/form-multipart-enctype-post-method".into(), version: "HTTP/1.1".into(), headers: vec![("Content-Type".into(), Bytes(b"multipart/form-data; boundary=XB".to_vec()))], body: b }),
        1 => body_strategy().prop_map(|b| Base { method: "POST".into(), target: "/form-multipart-enctype-post-method".into(), version: "HTTP/1.1".into(), headers: vec![("Content-Type".into(), Bytes(b"multipart/form-data; boundary=XB".to_vec()))], body: b }),
        1 => ("[a-z]{0,4}", "[ -~&&[^ #]]{0,12}").prop_map(|(k, v)| Base { method: "GET".into(), target: format!("/form-get-method?{}={}", k, v), version: "HTTP/1.1".into(), headers: vec![], body: Bytes(vec![]) }),
        1 => "[ -~&&[^ #]]{0,30}".prop_map(|q| Base { method: "POST".into(), target: format!("/file-upload/initiate?{}", q), version: "HTTP/1.1".into(), headers: vec![], body: Bytes(vec![]) }),
        1 => Just(Base { method: "POST".into(), target: "/file-upload/initiate?name=a&lastModified=1&size=3".into(), version: "HTTP/1.1".into(), headers: vec![], body: Bytes(vec![]) }),
        // hundreds to thousands of one-byte ranges on the large file (sums of sizes and lengths far beyond 32 bits, part counts in the thousands)
        1 => (prop::sample::select(vec!["GET", "GET", "HEAD"]), 1usize..2300, 0u32..3_000_000).prop_map(|(m, k, at)| Base { method: m.into(), target: "/huge.bin".into(), version: "HTTP/1.1".into(),
            headers: vec![("Range".into(), Bytes(format!("bytes={}", (0..k).map(|j| { let a = (at as usize + j * 7) % (3 << 20); format!("{}-{}", a, a) }).collect::<Vec<_>>().join(",")).into_bytes()))], body: Bytes(vec![]) }),
        1 => (prop::sample::select(vec!["OPTIONS", "HEAD"]), prop::sample::select(FIXED_PATHS.to_vec()), hostile_text(), hostile_text(), hostile_text()).prop_map(|(m, p, o, a, b)|
            Base { method: m.to_string(), target: p.to_string(), version: "HTTP/1.1".into(), headers: vec![("Origin".into(), o), ("Access-Control-Request-Method".into(), a), ("Access-Control-Request-Headers".into(), b)], body: Bytes(vec![]) }),
    ]
}

pub fn free_base() -> impl Strategy<Value = Base> {
    (method_strategy(), target_strategy(), version_strategy(), headers_strategy(), body_strategy())
        .prop_map(|(method, target, version, headers, body)| Base { method, target, version, headers, body })
}

pub fn mut_strategy() -> impl Strategy<Value = Mut> {
    let bytes = prop_oneof![
        // incl. Latin-1 supplement characters and "mojibake" pairs (UTF-8 bytes read as Latin-1: consecutive characters U+0080..U+00FF whose low bytes form valid UTF-8)
        1 => prop::sample::select(vec!["Ã©", "Ã¼", "Ã±", "Â£", "Ã\u{a0}", "ÿ", "\u{80}", "\u{9f}", "Ä", "Ã©A=", "Ã\u{83}Â©"]).prop_map(|s| Bytes(s.as_bytes().to_vec())),
        3 => prop::sample::select(vec!["\r", "\n", "\r\n", "\0", " ", ":", ": ", "\u{ff}", "%", "\t", "--", "=", "&", "\r\n\r\n", "é"]).prop_map(|s| if s == "\u{ff}" { Bytes(vec![0xff]) } else { Bytes(s.as_bytes().to_vec()) }),
        1 => proptest::collection::vec(any::<u8>(), 1..6).prop_map(Bytes),
        1 => long_text(),
    ];
    prop_oneof![
        3 => any::<u16>().prop_map(Mut::Truncate),
        2 => (any::<u16>(), 0u8..4).prop_map(|(p, n)| Mut::DeleteAt(p, n)),
        3 => (any::<u16>(), bytes.clone()).prop_map(|(p, b)| Mut::InsertAt(p, b)),
        2 => (any::<u16>(), bytes).prop_map(|(p, b)| Mut::ReplaceAt(p, b)),
        1 => any::<u16>().prop_map(Mut::DropCr), 1 => any::<u16>().prop_map(Mut::DupLf), 1 => any::<u16>().prop_map(Mut::DropLf),
        1 => (any::<u16>(), 0u8..8).prop_map(|(p, b)| Mut::Flip(p, b)),
        1 => (prop_oneof![4 => 1u16..200, 2 => 200u16..3000, 2 => 3000u16..6000], prop_oneof![3 => Just(2u8), 2 => Just(3u8), 2 => 4u8..40]).prop_map(|(count, width)| Mut::ManyHeaders { count, width }),
        1 => any::<u16>().prop_map(Mut::Oversize),
        3 => (any::<u16>(), 0u8..30).prop_map(|(n, k)| Mut::Number(n, k)),
        1 => any::<u16>().prop_map(Mut::Case),
    ]
}

pub fn case_strategy() -> impl Strategy<Value = ReqCase> {
    let base = prop_oneof![5 => coherent_base(), 4 => free_base()];
    (base, prop_oneof![4 => Just(vec![]), 4 => proptest::collection::vec(mut_strategy(), 1..=1), 2 => proptest::collection::vec(mut_strategy(), 2..=4)])
        .prop_map(|(base, muts)| ReqCase { base, muts })
}
