//! placeholder
