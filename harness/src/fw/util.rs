//! Small shared helpers: byte strings that serialise readably, hashing, sha256, indices.
#![allow(dead_code)]
use serde::{Deserialize, Deserializer, Serialize, Serializer};

/// Byte string which serialises as text: printable ASCII literally, everything else (and `\`) as `\xHH`.
#[derive(Clone, PartialEq, Eq, Hash, Default, PartialOrd, Ord)]
pub struct Bytes(pub Vec<u8>);

impl Bytes {
    pub fn escaped(&self) -> String { escape_bytes(&self.0) }
    pub fn from_escaped(s: &str) -> Bytes { Bytes(unescape_bytes(s)) }
}

pub fn escape_bytes(b: &[u8]) -> String {
    let mut s = String::with_capacity(b.len() + 8);
    for &c in b {
        if (0x20..0x7f).contains(&c) && c != b'\\' { s.push(c as char); } else { s.push_str(&format!("\\x{:02x}", c)); }
    }
    s
}

pub fn unescape_bytes(s: &str) -> Vec<u8> {
    let b = s.as_bytes();
    let mut out = Vec::with_capacity(b.len());
    let mut i = 0;
    while i < b.len() {
        if b[i] == b'\\' && i + 3 < b.len() && b[i + 1] == b'x' {
            if let Ok(v) = u8::from_str_radix(&s[i + 2..i + 4], 16) { out.push(v); i += 4; continue; }
        }
        out.push(b[i]);
        i += 1;
    }
    out
}

impl std::fmt::Debug for Bytes {
    fn fmt(&self, f: &mut std::fmt::Formatter<'_>) -> std::fmt::Result { write!(f, "b\"{}\"", self.escaped()) }
}
impl Serialize for Bytes {
    fn serialize<S: Serializer>(&self, s: S) -> Result<S::Ok, S::Error> { s.serialize_str(&self.escaped()) }
}
impl<'de> Deserialize<'de> for Bytes {
    fn deserialize<D: Deserializer<'de>>(d: D) -> Result<Self, D::Error> {
        let s = String::deserialize(d)?;
        Ok(Bytes::from_escaped(&s))
    }
}
impl From<Vec<u8>> for Bytes { fn from(v: Vec<u8>) -> Self { Bytes(v) } }
impl From<&[u8]> for Bytes { fn from(v: &[u8]) -> Self { Bytes(v.to_vec()) } }
impl From<&str> for Bytes { fn from(v: &str) -> Self { Bytes(v.as_bytes().to_vec()) } }

/// Monotone index mapping (shrinks well): maps a u16 to 0..len.
pub fn pick_idx(i: u16, len: usize) -> usize {
    if len == 0 { return 0; }
    ((i as usize) * len) >> 16
}

pub fn find_sub(hay: &[u8], needle: &[u8]) -> Option<usize> {
    if needle.is_empty() { return Some(0); }
    if hay.len() < needle.len() { return None; }
    hay.windows(needle.len()).position(|w| w == needle)
}

pub fn contains_sub(hay: &[u8], needle: &[u8]) -> bool { find_sub(hay, needle).is_some() }

pub fn lossy(b: &[u8], max: usize) -> String {
    let s = escape_bytes(&b[..b.len().min(max)]);
    if b.len() > max { format!("{}…[{} bytes]", s, b.len()) } else { s }
}

// ---- SHA-256 (for filesystem manifests) --------------------------------------------------------
pub fn sha256(data: &[u8]) -> [u8; 32] {
    const K: [u32; 64] = [
        0x428a2f98,0x71374491,0xb5c0fbcf,0xe9b5dba5,0x3956c25b,0x59f111f1,0x923f82a4,0xab1c5ed5,0xd807aa98,0x12835b01,0x243185be,0x550c7dc3,0x72be5d74,0x80deb1fe,0x9bdc06a7,0xc19bf174,
        0xe49b69c1,0xefbe4786,0x0fc19dc6,0x240ca1cc,0x2de92c6f,0x4a7484aa,0x5cb0a9dc,0x76f988da,0x983e5152,0xa831c66d,0xb00327c8,0xbf597fc7,0xc6e00bf3,0xd5a79147,0x06ca6351,0x14292967,
        0x27b70a85,0x2e1b2138,0x4d2c6dfc,0x53380d13,0x650a7354,0x766a0abb,0x81c2c92e,0x92722c85,0xa2bfe8a1,0xa81a664b,0xc24b8b70,0xc76c51a3,0xd192e819,0xd6990624,0xf40e3585,0x106aa070,
        0x19a4c116,0x1e376c08,0x2748774c,0x34b0bcb5,0x391c0cb3,0x4ed8aa4a,0x5b9cca4f,0x682e6ff3,0x748f82ee,0x78a5636f,0x84c87814,0x8cc70208,0x90befffa,0xa4506ceb,0xbef9a3f7,0xc67178f2];
    let mut h: [u32; 8] = [0x6a09e667,0xbb67ae85,0x3c6ef372,0xa54ff53a,0x510e527f,0x9b05688c,0x1f83d9ab,0x5be0cd19];
    let mut msg = data.to_vec();
    let bitlen = (data.len() as u64).wrapping_mul(8);
    msg.push(0x80);
    while msg.len() % 64 != 56 { msg.push(0); }
    msg.extend_from_slice(&bitlen.to_be_bytes());
    for chunk in msg.chunks(64) {
        let mut w = [0u32; 64];
        for i in 0..16 { w[i] = u32::from_be_bytes([chunk[i*4], chunk[i*4+1], chunk[i*4+2], chunk[i*4+3]]); }
        for i in 16..64 {
            let s0 = w[i-15].rotate_right(7) ^ w[i-15].rotate_right(18) ^ (w[i-15] >> 3);
            let s1 = w[i-2].rotate_right(17) ^ w[i-2].rotate_right(19) ^ (w[i-2] >> 10);
            w[i] = w[i-16].wrapping_add(s0).wrapping_add(w[i-7]).wrapping_add(s1);
        }
        let mut a = h;
        for i in 0..64 {
            let s1 = a[4].rotate_right(6) ^ a[4].rotate_right(11) ^ a[4].rotate_right(25);
            let ch = (a[4] & a[5]) ^ (!a[4] & a[6]);
            let t1 = a[7].wrapping_add(s1).wrapping_add(ch).wrapping_add(K[i]).wrapping_add(w[i]);
            let s0 = a[0].rotate_right(2) ^ a[0].rotate_right(13) ^ a[0].rotate_right(22);
            let maj = (a[0] & a[1]) ^ (a[0] & a[2]) ^ (a[1] & a[2]);
            let t2 = s0.wrapping_add(maj);
            a[7] = a[6]; a[6] = a[5]; a[5] = a[4]; a[4] = a[3].wrapping_add(t1); a[3] = a[2]; a[2] = a[1]; a[1] = a[0]; a[0] = t1.wrapping_add(t2);
        }
        for i in 0..8 { h[i] = h[i].wrapping_add(a[i]); }
    }
    let mut out = [0u8; 32];
    for i in 0..8 { out[i*4..i*4+4].copy_from_slice(&h[i].to_be_bytes()); }
    out
}

pub fn hex(b: &[u8]) -> String { b.iter().map(|x| format!("{:02x}", x)).collect() }
