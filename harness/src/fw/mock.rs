//! Mock transport for `Server::process` / `Server::process_request` (both are generic over Read + Write).
#![allow(dead_code)]
use serde::{Deserialize, Serialize};
use std::io::{Read, Write};

#[derive(Clone, Debug, Serialize, Deserialize, PartialEq, Eq, Hash)]
pub enum WriteScript {
    /// every write accepts everything
    Unlimited,
    /// every write accepts at most k bytes (k >= 1)
    Chunk(usize),
    /// the i-th write accepts at most chunks[i] bytes (>= 1), afterwards unlimited
    Chunks(Vec<usize>),
    /// writes succeed until k bytes have been accepted in total, then return an error
    ErrAfter(usize),
    /// the first write returns Ok(0)
    Zero,
}

#[derive(Clone, Debug, Serialize, Deserialize, PartialEq, Eq, Hash)]
pub struct Transport {
    pub write: WriteScript,
    pub read_err: bool,
    pub flush_err: bool,
}

impl Default for Transport {
    fn default() -> Self { Transport { write: WriteScript::Unlimited, read_err: false, flush_err: false } }
}

pub struct Mock {
    pub inp: Vec<u8>,
    pub pos: usize,
    pub out: Vec<u8>,
    pub t: Transport,
    pub write_calls: usize,
    pub read_calls: usize,
    pub flush_calls: usize,
}

impl Mock {
    pub fn new(inp: Vec<u8>, t: Transport) -> Mock { Mock { inp, pos: 0, out: vec![], t, write_calls: 0, read_calls: 0, flush_calls: 0 } }
}

impl Read for Mock {
    fn read(&mut self, buf: &mut [u8]) -> std::io::Result<usize> {
        self.read_calls += 1;
        if self.t.read_err { return Err(std::io::Error::new(std::io::ErrorKind::ConnectionReset, "injected read error")); }
        let n = std::cmp::min(buf.len(), self.inp.len() - self.pos);
        buf[..n].copy_from_slice(&self.inp[self.pos..self.pos + n]);
        self.pos += n;
        Ok(n)
    }
}

impl Write for Mock {
    fn write(&mut self, buf: &[u8]) -> std::io::Result<usize> {
        let call = self.write_calls;
        self.write_calls += 1;
        let n = match &self.t.write {
            WriteScript::Unlimited => buf.len(),
            WriteScript::Chunk(k) => buf.len().min((*k).max(1)),
            WriteScript::Chunks(v) => match v.get(call) { Some(k) => buf.len().min((*k).max(1)), None => buf.len() },
            WriteScript::ErrAfter(k) => {
                if self.out.len() >= *k { return Err(std::io::Error::new(std::io::ErrorKind::BrokenPipe, "injected write error")); }
                buf.len().min(*k - self.out.len())
            }
            WriteScript::Zero => if call == 0 { 0 } else { buf.len() },
        };
        self.out.extend_from_slice(&buf[..n]);
        Ok(n)
    }
    fn flush(&mut self) -> std::io::Result<()> {
        self.flush_calls += 1;
        if self.t.flush_err { return Err(std::io::Error::new(std::io::ErrorKind::BrokenPipe, "injected flush error")); }
        Ok(())
    }
}
