//! Framework: seeded proptest driver, verdicts, known findings, evidence, replay, supervisor.
#![allow(dead_code)]

pub mod mhttp;
pub mod mock;
pub mod inproc;
pub mod tree;
pub mod greq;
pub mod net;
pub mod util;

use proptest::strategy::{Strategy, ValueTree};
use proptest::test_runner::{Config, RngAlgorithm, RngSeed, TestCaseError, TestError, TestRng, TestRunner};
use serde::{Deserialize, Serialize};
use serde_json::{json, Value};
use std::cell::RefCell;
use std::collections::{BTreeMap, HashSet};
use std::hash::{Hash, Hasher};
use std::io::Write;
use std::path::{Path, PathBuf};
use std::time::Instant;

/// Root of the verification tree: $RWSV_VERIF_DIR (set by ./check to its own directory), default /verif.
pub fn verif_dir() -> String { std::env::var("RWSV_VERIF_DIR").unwrap_or_else(|_| "/verif".to_string()) }

#[derive(Clone, Copy, PartialEq, Eq, Debug, Serialize, Deserialize)]
pub enum Tier { Quick, Thorough }

impl Tier {
    pub fn name(&self) -> &'static str { match self { Tier::Quick => "quick", Tier::Thorough => "thorough" } }
}

/// Outcome of one case evaluated against an oracle.
#[derive(Clone, Debug)]
pub enum Verdict {
    /// Property held. `nontrivial` per the property's stated rule; `classes` feed the generator-health histogram.
    Pass { nontrivial: bool, classes: Vec<&'static str> },
    /// Oracle failed. `sig` identifies root cause class (never a line number); `detail` is for humans.
    Fail { sig: String, detail: String },
    /// Case lies outside the property's domain (counted, must stay rare).
    Discard,
}

impl Verdict {
    pub fn pass(nontrivial: bool) -> Verdict { Verdict::Pass { nontrivial, classes: vec![] } }
    pub fn passc(nontrivial: bool, classes: Vec<&'static str>) -> Verdict { Verdict::Pass { nontrivial, classes } }
    pub fn fail(sig: impl Into<String>, detail: impl Into<String>) -> Verdict { Verdict::Fail { sig: sig.into(), detail: detail.into() } }
}

pub fn hash64<T: Hash + ?Sized>(t: &T) -> u64 {
    #[allow(deprecated)]
    let mut h = std::hash::SipHasher::new_with_keys(0x5157, 0x7673);
    t.hash(&mut h);
    h.finish()
}

pub fn mix_seed(seed: u64, salt: &str, worker: u32) -> u64 {
    hash64(&(seed, salt, worker))
}

#[derive(Serialize, Deserialize, Clone, Debug)]
pub struct Violation {
    pub property: String,
    pub section: String,
    pub sig: String,
    pub detail: String,
    pub case: Value,
}

#[derive(Serialize, Deserialize, Default, Debug)]
pub struct WorkerResult {
    pub evaluations: u64,
    pub discards: u64,
    pub nontrivial_hashes: Vec<u64>,
    pub nontrivial_by_construction: u64,
    pub samples: Vec<Value>,
    pub classes: BTreeMap<String, u64>,
    pub known: BTreeMap<String, u64>,
    pub known_examples: BTreeMap<String, Value>,
    pub violations: Vec<Violation>,
    pub notes: BTreeMap<String, u64>,
    pub sections: BTreeMap<String, u64>,
    pub exhaustive_sections: Vec<String>,
    pub inconclusive: Vec<String>,
    #[serde(default)]
    pub slowest_case_ms: u64,
}

pub struct KnownFindings {
    pub known: HashSet<(String, String)>,
    pub descriptions: BTreeMap<(String, String), String>,
}

impl KnownFindings {
    pub fn load() -> KnownFindings {
        let mut known = HashSet::new();
        let mut descriptions = BTreeMap::new();
        let path = format!("{}/known_findings.txt", verif_dir());
        if let Ok(text) = std::fs::read_to_string(&path) {
            for line in text.lines() {
                let line = line.trim();
                if !line.starts_with("known:") { continue; }
                let mut prop = None;
                let mut sig = None;
                let mut rest = vec![];
                for tok in line["known:".len()..].split_whitespace() {
                    if prop.is_none() && tok.starts_with("property=") { prop = Some(tok["property=".len()..].to_string()); }
                    else if sig.is_none() && tok.starts_with("sig=") { sig = Some(tok["sig=".len()..].to_string()); }
                    else { rest.push(tok); }
                }
                if let (Some(p), Some(s)) = (prop, sig) {
                    descriptions.insert((p.clone(), s.clone()), rest.join(" "));
                    known.insert((p, s));
                }
            }
        }
        KnownFindings { known, descriptions }
    }
    pub fn is_known(&self, property: &str, sig: &str) -> bool {
        self.known.contains(&(property.to_string(), sig.to_string()))
    }
}

/// Per-child context.
pub struct Ctx {
    pub property: String,
    pub tier: Tier,
    pub seed: u64,
    pub worker: u32,
    pub workers: u32,
    pub dir: PathBuf,
    pub strict: bool,
    pub res: RefCell<WorkerResult>,
    pub nontrivial: RefCell<HashSet<u64>>,
    pub known: KnownFindings,
    pub section: RefCell<String>,
    pub sample_budget: RefCell<BTreeMap<String, u32>>,
    pub failed: RefCell<bool>,
    pub real_stdout: RefCell<Option<std::fs::File>>,
    pub inflight_map: RefCell<Option<InflightMap>>,
    pub shrinking: RefCell<bool>,
    pub auto_sample: RefCell<bool>,
    pub max_shrink_iters: RefCell<u32>,
    pub last_failure: RefCell<Option<(String, String, Value)>>,
}

impl Ctx {
    pub fn quick(&self) -> bool { self.tier == Tier::Quick }
    /// Work size: `q` in quick tier, `t` in thorough; divided among workers when `split`.
    pub fn scale(&self, q: u64, t: u64) -> u64 { if self.quick() { q } else { t } }
    pub fn share(&self, total: u64) -> u64 {
        let w = self.workers as u64;
        let base = total / w;
        let extra = if (self.worker as u64) < total % w { 1 } else { 0 };
        base + extra
    }
    pub fn set_section(&self, s: &str) { *self.section.borrow_mut() = s.to_string(); }
    pub fn section(&self) -> String { self.section.borrow().clone() }

    /// Record the case about to be executed so that an abort of this process can be attributed.
    /// The record lives in a MAP_SHARED file mapping: no system call per case, and the page cache keeps it
    /// when the process dies.
    pub fn inflight(&self, case: &Value) {
        let v = json!({"section": self.section(), "case": case});
        self.inflight_bytes(&serde_json::to_vec(&v).unwrap());
    }
    pub fn inflight_ser<T: Serialize>(&self, case: &T) {
        let mut buf: Vec<u8> = Vec::with_capacity(256);
        buf.extend_from_slice(b"{\"section\":");
        serde_json::to_writer(&mut buf, &*self.section.borrow()).unwrap();
        buf.extend_from_slice(b",\"case\":");
        if serde_json::to_writer(&mut buf, case).is_err() { return; }
        buf.push(b'}');
        self.inflight_bytes(&buf);
    }
    fn inflight_bytes(&self, bytes: &[u8]) {
        let mut m = self.inflight_map.borrow_mut();
        if m.is_none() {
            let p = self.dir.join(format!("w{}.inflight", self.worker));
            *m = InflightMap::create(&p);
        }
        if let Some(map) = m.as_mut() { map.set(bytes); }
        CASE_STARTED_MS.store(now_ms(), std::sync::atomic::Ordering::SeqCst);
    }
    pub fn clear_inflight(&self) {
        if let Some(map) = self.inflight_map.borrow_mut().as_mut() { map.set(b""); }
        CASE_STARTED_MS.store(0, std::sync::atomic::Ordering::SeqCst);
    }

    pub fn note(&self, name: &str) { *self.res.borrow_mut().notes.entry(name.to_string()).or_insert(0) += 1; }
    pub fn note_n(&self, name: &str, n: u64) { *self.res.borrow_mut().notes.entry(name.to_string()).or_insert(0) += n; }
    pub fn class(&self, name: &str) { *self.res.borrow_mut().classes.entry(name.to_string()).or_insert(0) += 1; }
    pub fn inconclusive(&self, what: &str) { self.res.borrow_mut().inconclusive.push(what.to_string()); }
    pub fn mark_exhaustive(&self, section: &str) { self.res.borrow_mut().exhaustive_sections.push(section.to_string()); }

    pub fn sample(&self, class: &str, v: impl FnOnce() -> Value) {
        let mut b = self.sample_budget.borrow_mut();
        let key = format!("{}/{}", self.section(), class);
        let e = b.entry(key).or_insert(0);
        if *e < 1 && self.res.borrow().samples.len() < 12 {
            *e += 1;
            let mut val = v();
            truncate_json(&mut val, 600);
            self.res.borrow_mut().samples.push(json!({"section": self.section(), "class": class, "case": val}));
        }
    }

    /// Count one evaluation outside the proptest driver (enumerations, histories).
    pub fn count(&self, verdict: &Verdict, key: u64, case: impl FnOnce() -> Value) -> bool {
        // returns true if this is a new (non-known) violation
        let mut new_violation = false;
        match verdict {
            Verdict::Pass { nontrivial, classes } => {
                let mut r = self.res.borrow_mut();
                r.evaluations += 1;
                *r.sections.entry(self.section()).or_insert(0) += 1;
                for c in classes { *r.classes.entry(c.to_string()).or_insert(0) += 1; }
                drop(r);
                if *nontrivial {
                    self.nontrivial.borrow_mut().insert(key);
                    if *self.auto_sample.borrow() {
                        let cls = classes.first().copied().unwrap_or("nontrivial");
                        self.sample(cls, case);
                    }
                }
            }
            Verdict::Discard => { self.res.borrow_mut().discards += 1; }
            Verdict::Fail { sig, detail } => {
                let mut r = self.res.borrow_mut();
                r.evaluations += 1;
                *r.sections.entry(self.section()).or_insert(0) += 1;
                if !self.strict && self.known.is_known(&self.property, sig) {
                    *r.known.entry(sig.clone()).or_insert(0) += 1;
                    if !r.known_examples.contains_key(sig) {
                        let mut c = case();
                        truncate_json(&mut c, 600);
                        r.known_examples.insert(sig.clone(), json!({"case": c, "detail": detail}));
                    }
                } else {
                    new_violation = true;
                    // keep at most a handful of violations per signature
                    let n = r.violations.iter().filter(|v| &v.sig == sig).count();
                    if n < 1 && r.violations.len() < 16 {
                        r.violations.push(Violation { property: self.property.clone(), section: self.section.borrow().clone(), sig: sig.clone(), detail: detail.clone(), case: case() });
                    }
                }
            }
        }
        new_violation
    }

    /// Turn a list of oracle problems into a verdict: the first problem whose signature is not a listed known
    /// finding wins (so that a known finding never masks a different violation on the same case); listed ones are
    /// counted; no problems = pass.
    pub fn judge(&self, problems: Vec<(String, String)>, nontrivial: bool, classes: Vec<&'static str>) -> Verdict {
        if problems.is_empty() { return Verdict::Pass { nontrivial, classes }; }
        if let Some((sig, detail)) = problems.iter().find(|(sig, _)| self.strict || !self.known.is_known(&self.property, sig)) {
            return Verdict::Fail { sig: sig.clone(), detail: detail.clone() };
        }
        // all known: count all but the first here, the first through the normal path
        if !*self.shrinking.borrow() {
            let mut r = self.res.borrow_mut();
            for (sig, _) in problems.iter().skip(1) { *r.known.entry(sig.clone()).or_insert(0) += 1; }
        }
        let (sig, detail) = problems[0].clone();
        Verdict::Fail { sig, detail }
    }

    pub fn add_by_construction(&self, evaluations: u64, nontrivial: u64) {
        let mut r = self.res.borrow_mut();
        r.evaluations += evaluations;
        r.nontrivial_by_construction += nontrivial;
        *r.sections.entry(self.section()).or_insert(0) += evaluations;
    }

    pub fn rng(&self, salt: &str) -> TestRng {
        let s = mix_seed(self.seed, &format!("{}/{}/{}", self.property, self.section(), salt), self.worker);
        let mut bytes = [0u8; 32];
        for i in 0..4 { bytes[i * 8..i * 8 + 8].copy_from_slice(&hash64(&(s, i as u64)).to_le_bytes()); }
        TestRng::from_seed(RngAlgorithm::ChaCha, &bytes)
    }

    /// Seeded proptest campaign. Known findings are counted and excluded from the stop condition, the first
    /// unlisted failure is shrunk by proptest and recorded as a violation (the campaign for this section then ends).
    pub fn prop<S, F>(&self, section: &str, cases: u64, strategy: S, oracle: F)
    where
        S: Strategy,
        S::Value: Serialize + Clone + std::fmt::Debug,
        F: Fn(&S::Value) -> Verdict,
    {
        self.prop_salted(section, "", cases, strategy, oracle)
    }

    /// Like `prop`, with an extra salt for the seed (several campaigns in one section, e.g. one per generated tree).
    pub fn prop_salted<S, F>(&self, section: &str, salt: &str, cases: u64, strategy: S, oracle: F)
    where
        S: Strategy,
        S::Value: Serialize + Clone + std::fmt::Debug,
        F: Fn(&S::Value) -> Verdict,
    {
        self.set_section(section);
        if cases == 0 { return; }
        let s = mix_seed(self.seed, &format!("{}/{}{}", self.property, section, salt), self.worker);
        let config = Config {
            cases: cases as u32,
            failure_persistence: None,
            rng_seed: RngSeed::Fixed(s),
            max_shrink_iters: *self.max_shrink_iters.borrow(),
            max_global_rejects: 1_000_000,
            max_local_rejects: 1_000_000,
            ..Config::default()
        };
        let mut runner = TestRunner::new(config);
        let failed_flag = RefCell::new(false);
        let result = runner.run(&strategy, |case| {
            let shrinking = *failed_flag.borrow();
            *self.shrinking.borrow_mut() = shrinking;
            self.inflight_ser(&case);
            let t_case = Instant::now();
            let verdict = oracle(&case);
            let ms = t_case.elapsed().as_millis() as u64;
            if ms > self.res.borrow().slowest_case_ms { self.res.borrow_mut().slowest_case_ms = ms; }
            if shrinking {
                // during shrinking: only unlisted failures count as failures; nothing is counted
                return match verdict {
                    Verdict::Fail { sig, .. } if self.strict || !self.known.is_known(&self.property, &sig) => Err(TestCaseError::fail(sig)),
                    _ => Ok(()),
                };
            }
            let key = hash64(&format!("{:?}", case));
            let is_new = self.count(&verdict, key, || serde_json::to_value(&case).unwrap_or(Value::Null));
            match verdict {
                Verdict::Fail { sig, detail } if is_new => {
                    *failed_flag.borrow_mut() = true;
                    *self.last_failure.borrow_mut() = Some((sig.clone(), detail.clone(), serde_json::to_value(&case).unwrap_or(Value::Null)));
                    // drop the unshrunk record; the shrunk one is recorded below
                    self.res.borrow_mut().violations.retain(|v| !(v.sig == sig && v.section == section));
                    Err(TestCaseError::fail(sig))
                }
                Verdict::Discard => Err(TestCaseError::reject("discard")),
                _ => Ok(()),
            }
        });
        self.clear_inflight();
        *self.shrinking.borrow_mut() = true; // the re-evaluation of the minimal case below must not count
        match result {
            Ok(()) => {}
            Err(TestError::Fail(_reason, minimal)) => {
                let verdict = oracle(&minimal);
                let mut case_json = serde_json::to_value(&minimal).unwrap_or(Value::Null);
                let (sig, detail) = match verdict {
                    Verdict::Fail { sig, detail } => (sig, detail),
                    _ => {
                        // the shrunk case does not fail when evaluated again: report the original, unshrunk failure
                        match self.last_failure.borrow_mut().take() {
                            Some((sig, detail, original)) => { case_json = original; (sig, format!("{} [shrinking ended on a case that passes when re-evaluated: reported unshrunk]", detail)) }
                            None => ("unstable-after-shrink".to_string(), "the shrunk case passed when re-evaluated".to_string()),
                        }
                    }
                };
                let mut r = self.res.borrow_mut();
                r.violations.push(Violation { property: self.property.clone(), section: section.to_string(), sig, detail, case: case_json });
                *self.failed.borrow_mut() = true;
            }
            Err(TestError::Abort(reason)) => {
                self.inconclusive(&format!("proptest aborted in section {}: {}", section, reason));
            }
        }
        *self.shrinking.borrow_mut() = false;
        // partial results survive a later abort / hang of this worker
        self.finish();
    }

    /// Generate one value from a strategy with this context's deterministic rng (for hand-driven loops).
    pub fn gen<S: Strategy>(&self, runner: &mut TestRunner, strategy: &S) -> S::Value {
        strategy.new_tree(runner).expect("strategy").current()
    }

    pub fn runner(&self, salt: &str) -> TestRunner {
        let s = mix_seed(self.seed, &format!("{}/{}/{}", self.property, self.section(), salt), self.worker);
        TestRunner::new(Config { failure_persistence: None, rng_seed: RngSeed::Fixed(s), ..Config::default() })
    }

    pub fn finish(&self) {
        let mut r = self.res.borrow_mut();
        r.nontrivial_hashes = self.nontrivial.borrow().iter().copied().collect();
        let p = self.dir.join(format!("w{}.result.json", self.worker));
        std::fs::write(p, serde_json::to_vec(&*r).unwrap()).unwrap();
    }

    /// Print to the harness's real stdout (fd 1 of the code under test is redirected to a log file).
    pub fn say(&self, s: &str) {
        if let Some(f) = self.real_stdout.borrow_mut().as_mut() { let _ = writeln!(f, "{}", s); }
    }
}

pub fn truncate_json(v: &mut Value, max: usize) {
    match v {
        Value::String(s) => {
            if s.len() > max {
                let mut cut = max;
                while !s.is_char_boundary(cut) { cut -= 1; }
                let total = s.len();
                s.truncate(cut);
                s.push_str(&format!("…[{} bytes total]", total));
            }
        }
        Value::Array(a) => {
            let n = a.len();
            if n > 24 { a.truncate(24); a.push(Value::String(format!("…[{} items total]", n))); }
            for x in a.iter_mut() { truncate_json(x, max) }
        }
        Value::Object(o) => { for (_, x) in o.iter_mut() { truncate_json(x, max) } }
        _ => {}
    }
}

// ------------------------------------------------------------------------------------------------
// per-case watchdog of a worker process

pub static CASE_STARTED_MS: std::sync::atomic::AtomicU64 = std::sync::atomic::AtomicU64::new(0);

pub fn now_ms() -> u64 { std::time::SystemTime::now().duration_since(std::time::UNIX_EPOCH).map(|d| d.as_millis() as u64).unwrap_or(0) }

/// Started in worker processes: if one case runs longer than `limit_s`, leave a marker next to the in-flight record and stop the process with exit code 5.
pub fn start_case_watchdog(dir: PathBuf, worker: u32, limit_s: u64) {
    std::thread::Builder::new().name("rwsv-watchdog".into()).spawn(move || loop {
        std::thread::sleep(std::time::Duration::from_millis(200));
        let started = CASE_STARTED_MS.load(std::sync::atomic::Ordering::SeqCst);
        if started != 0 && now_ms().saturating_sub(started) > limit_s * 1000 {
            let _ = std::fs::write(dir.join(format!("w{}.hang", worker)), format!("{}", limit_s));
            std::process::exit(5);
        }
    }).ok();
}

// ------------------------------------------------------------------------------------------------
// panic capture

thread_local! {
    static LAST_PANIC: RefCell<Option<(String, String)>> = RefCell::new(None);
    static CATCH_DEPTH: RefCell<u32> = RefCell::new(0);
}

pub fn install_panic_hook() {
    std::panic::set_hook(Box::new(|info| {
        let msg = if let Some(s) = info.payload().downcast_ref::<String>() { s.clone() }
            else if let Some(s) = info.payload().downcast_ref::<&str>() { s.to_string() } else { "?".to_string() };
        let loc = info.location().map(|l| format!("{}:{}", l.file(), l.line())).unwrap_or_default();
        // a panic outside `catch` is a bug of the harness itself: make it visible in the worker's log
        if CATCH_DEPTH.with(|d| *d.borrow()) == 0 { eprintln!("HARNESS PANIC: {} at {}", msg, loc); }
        LAST_PANIC.with(|p| *p.borrow_mut() = Some((msg, loc)));
    }));
}

/// Run `f`, catching panics. Err((normalised message, location)).
pub fn catch<T>(f: impl FnOnce() -> T) -> Result<T, (String, String)> {
    LAST_PANIC.with(|p| *p.borrow_mut() = None);
    CATCH_DEPTH.with(|d| *d.borrow_mut() += 1);
    let r = std::panic::catch_unwind(std::panic::AssertUnwindSafe(f));
    CATCH_DEPTH.with(|d| *d.borrow_mut() -= 1);
    match r {
        Ok(v) => Ok(v),
        Err(e) => {
            let from_hook = LAST_PANIC.with(|p| p.borrow_mut().take());
            let (msg, loc) = from_hook.unwrap_or_else(|| {
                let msg = if let Some(s) = e.downcast_ref::<String>() { s.clone() }
                    else if let Some(s) = e.downcast_ref::<&str>() { s.to_string() } else { "?".to_string() };
                (msg, String::new())
            });
            Err((normalise_panic(&msg), loc))
        }
    }
}

/// Panic messages with the variable parts removed, so that a signature names a kind of failure.
pub fn normalise_panic(msg: &str) -> String {
    let first = msg.lines().next().unwrap_or("");
    let mut out = String::new();
    let mut prev_digit = false;
    for ch in first.chars().filter(|c| *c != '`') {
        if ch.is_ascii_digit() { if !prev_digit { out.push('N'); } prev_digit = true; }
        else { prev_digit = false; out.push(if ch == ' ' { '_' } else { ch }); }
    }
    // cut quoted payloads: keep the part before the first quote or colon-brace
    let cut = out.find(|c| c == '"' || c == '\'' || c == '{').unwrap_or(out.len());
    let mut s: String = out[..cut].trim_end_matches(|c| c == '_' || c == ':').to_string();
    if s.len() > 80 { let mut c = 80; while !s.is_char_boundary(c) { c -= 1 } s.truncate(c); }
    s
}

// ------------------------------------------------------------------------------------------------
// fd muting: rws prints a log line per request; the harness keeps the real stdout

pub fn redirect_stdio_to(path: &Path) -> Option<std::fs::File> {
    use std::os::unix::io::{AsRawFd, FromRawFd};
    unsafe {
        let saved = libc::dup(1);
        let f = std::fs::OpenOptions::new().create(true).append(true).open(path).ok()?;
        libc::dup2(f.as_raw_fd(), 1);
        libc::dup2(f.as_raw_fd(), 2);
        if saved >= 0 { Some(std::fs::File::from_raw_fd(saved)) } else { None }
    }
}

pub fn redirect_stdio_to_devnull() -> Option<std::fs::File> {
    redirect_stdio_to(Path::new("/dev/null"))
}

// ------------------------------------------------------------------------------------------------
// parent: supervisor, merge, evidence

pub struct RunSpec {
    pub property: String,
    pub tier: Tier,
    pub seed: u64,
    pub workers: u32,
    pub rule: String,
    pub level: &'static str,
    pub assumptions: Vec<String>,
    pub timeout_s: u64,
    /// per-case limit in seconds; a case that runs longer makes the worker stop with its in-flight case saved
    pub case_limit_s: u64,
    /// properties whose statement includes termination report such a case as a violation (sig hang:<section>); others as inconclusive
    pub hang_is_violation: bool,
    /// worker processes of another engine that speaks the same protocol (the shuttle engine): (executable, number of workers)
    pub foreign_workers: Option<(PathBuf, u32)>,
    /// number of native rwsv workers (0: only foreign workers)
    pub native_workers: Option<u32>,
}

pub fn scratch_base() -> PathBuf {
    let base = std::env::var("RWSV_TMPDIR").unwrap_or_else(|_| std::env::var("TMPDIR").unwrap_or_else(|_| "/tmp".to_string()));
    PathBuf::from(base)
}

pub fn run_parent(spec: RunSpec, regressions: bool) -> i32 {
    let t0 = Instant::now();
    let exe = std::env::current_exe().unwrap();
    let dir = scratch_base().join(format!("rwsv-{}-{}", spec.property, std::process::id()));
    let _ = std::fs::remove_dir_all(&dir);
    std::fs::create_dir_all(&dir).unwrap();
    let known = KnownFindings::load();

    let mut merged = WorkerResult::default();
    let mut nontrivial: HashSet<u64> = HashSet::new();
    let mut infra: Vec<String> = vec![];

    // regressions first (replays of repaired defects), seconds
    let mut regression_count = 0u64;
    if regressions {
        let rdir = PathBuf::from(verif_dir()).join("regressions");
        if let Ok(rd) = std::fs::read_dir(&rdir) {
            let mut files: Vec<PathBuf> = rd.filter_map(|e| e.ok()).map(|e| e.path())
                .filter(|p| p.file_name().and_then(|n| n.to_str()).map(|n| n.starts_with(&format!("{}-", spec.property)) && n.ends_with(".json")).unwrap_or(false)).collect();
            files.sort();
            for f in files {
                regression_count += 1;
                let (code, out) = replay_in_child(&exe, &f, &dir, false);
                if code == 1 {
                    let sig = out.lines().find_map(|l| l.strip_prefix("REPLAY-FAIL sig=")).unwrap_or("regression").to_string();
                    let sigonly = sig.split_whitespace().next().unwrap_or("regression").to_string();
                    if known.is_known(&spec.property, &sigonly) {
                        *merged.known.entry(sigonly).or_insert(0) += 1;
                    } else {
                        println!("VIOLATION property={} replay={}", spec.property, f.display());
                        println!("  regression replay failed: {}", sig);
                        merged.violations.push(Violation { property: spec.property.clone(), section: "regression".into(), sig: sigonly, detail: format!("committed regression {} fails again", f.display()), case: Value::Null });
                        // already printed; mark by clearing case
                    }
                } else if code != 0 {
                    infra.push(format!("regression replay {} ended with code {}", f.display(), code));
                }
            }
        }
    }
    let regression_violations = merged.violations.len();

    let mut children = vec![];
    let native = spec.native_workers.unwrap_or(spec.workers);
    let mut plan: Vec<(PathBuf, u32, u32, u32)> = vec![]; // (exe, global index, index within its engine, workers of its engine)
    for w in 0..native { plan.push((exe.clone(), w, w, native)); }
    if let Some((fexe, fw)) = &spec.foreign_workers { for k in 0..*fw { plan.push((fexe.clone(), native + k, k, *fw)); } }
    for (cexe, w, local, total) in plan {
        let log = std::fs::File::create(dir.join(format!("w{}.log", w))).unwrap();
        let log2 = log.try_clone().unwrap();
        use std::os::unix::process::CommandExt;
        let mut wcmd = std::process::Command::new(&cexe);
        // every worker leads its own process group and dies with the supervisor; whatever it started (servers, wrappers) is removed with the group
        wcmd.process_group(0);
        unsafe { wcmd.pre_exec(|| { libc::prctl(libc::PR_SET_PDEATHSIG, libc::SIGKILL); Ok(()) }); }
        let child = wcmd
            .arg("child").arg(&spec.property)
            .arg("--tier").arg(spec.tier.name())
            .arg("--seed").arg(spec.seed.to_string())
            .arg("--worker").arg(w.to_string())
            .arg("--workers").arg(total.to_string())
            .arg("--local-index").arg(local.to_string())
            .arg("--dir").arg(&dir)
            .arg("--case-limit").arg(spec.case_limit_s.to_string())
            .stdout(log).stderr(log2)
            .stdin(std::process::Stdio::null())
            .spawn();
        match child { Ok(c) => children.push((w, c)), Err(e) => infra.push(format!("cannot start worker {} ({}): {}", w, cexe.display(), e)) }
    }
    let deadline = Instant::now() + std::time::Duration::from_secs(spec.timeout_s);
    for (w, mut child) in children {
        let status = loop {
            match child.try_wait() {
                Ok(Some(st)) => break Some(st),
                Ok(None) => {
                    if Instant::now() > deadline { let _ = child.kill(); let _ = child.wait(); break None; }
                    std::thread::sleep(std::time::Duration::from_millis(20));
                }
                Err(_) => break None,
            }
        };
        // stragglers of the worker's process group (a server whose owner was stopped by the watchdog, a traced server that outlived its strace)
        unsafe { libc::kill(-(child.id() as i32), libc::SIGKILL); }
        let inflight_path = dir.join(format!("w{}.inflight", w));
        let result_path = dir.join(format!("w{}.result.json", w));
        match status {
            None => {
                infra.push(format!("worker {} exceeded the watchdog of {} s (in-flight case kept in {})", w, spec.timeout_s, inflight_path.display()));
                // keep the in-flight case for inspection
                let keep = PathBuf::from(verif_dir()).join("replays");
                let _ = std::fs::create_dir_all(&keep);
                if let Some(b) = InflightMap::read(&inflight_path) { let _ = std::fs::write(keep.join(format!("{}-watchdog-w{}.json", spec.property, w)), b); }
            }
            Some(st) => {
                use std::os::unix::process::ExitStatusExt;
                if st.signal().is_some() || st.code() == Some(5) {
                    if let Some(r) = std::fs::read(&result_path).ok().and_then(|b| serde_json::from_slice::<WorkerResult>(&b).ok()) { merge(&mut merged, &mut nontrivial, r); }
                }
                if let Some(sig) = st.signal() {
                    // abort of the worker process: attribute to the in-flight case
                    let inflight: Value = InflightMap::read(&inflight_path).and_then(|b| serde_json::from_slice(&b).ok())
                        .or_else(|| std::fs::read(dir.join(format!("w{}.inflight.json", w))).ok().and_then(|b| serde_json::from_slice(&b).ok())).unwrap_or(Value::Null);
                    if inflight.is_null() {
                        infra.push(format!("worker {} died with signal {} outside any case", w, sig));
                    } else {
                        let section = inflight.get("section").and_then(|s| s.as_str()).unwrap_or("").to_string();
                        let vsig = format!("abort:signal-{}:{}", sig, section);
                        let v = Violation { property: spec.property.clone(), section, sig: vsig.clone(), detail: format!("worker process died with signal {} while executing this case (stack overflow / abort cannot be caught in-process)", sig), case: inflight.get("case").cloned().unwrap_or(Value::Null) };
                        if known.is_known(&spec.property, &vsig) { *merged.known.entry(vsig).or_insert(0) += 1; } else { merged.violations.push(v); }
                    }
                } else if st.code() == Some(5) {
                    // a single case exceeded the per-case limit
                    let inflight: Value = InflightMap::read(&inflight_path).and_then(|b| serde_json::from_slice(&b).ok()).unwrap_or(Value::Null);
                    let section = inflight.get("section").and_then(|s| s.as_str()).unwrap_or("").to_string();
                    let vsig = format!("hang:{}", section);
                    let v = Violation { property: spec.property.clone(), section: section.clone(), sig: vsig.clone(), detail: format!("the case did not return within {} s (worker stopped by the per-case watchdog)", spec.case_limit_s), case: inflight.get("case").cloned().unwrap_or(Value::Null) };
                    if spec.hang_is_violation {
                        if known.is_known(&spec.property, &vsig) { *merged.known.entry(vsig).or_insert(0) += 1; } else { merged.violations.push(v); }
                    } else {
                        let keep = PathBuf::from(verif_dir()).join("replays");
                        let _ = std::fs::create_dir_all(&keep);
                        let kp = keep.join(format!("{}-hang-w{}.json", spec.property, w));
                        let _ = std::fs::write(&kp, serde_json::to_vec_pretty(&v).unwrap());
                        infra.push(format!("worker {}: a case in section {} exceeded the per-case limit of {} s (saved to {})", w, section, spec.case_limit_s, kp.display()));
                    }
                } else if st.code() == Some(0) || st.code() == Some(1) {
                    match std::fs::read(&result_path).ok().and_then(|b| serde_json::from_slice::<WorkerResult>(&b).ok()) {
                        Some(r) => merge(&mut merged, &mut nontrivial, r),
                        None => infra.push(format!("worker {} left no result file (exit {:?}); see {}", w, st.code(), dir.join(format!("w{}.log", w)).display())),
                    }
                } else {
                    infra.push(format!("worker {} exited with {:?}; see {}", w, st.code(), dir.join(format!("w{}.log", w)).display()));
                }
            }
        }
    }

    // report
    let mut exit = 0;
    for (sig, n) in merged.known.iter() {
        let d = known.descriptions.get(&(spec.property.clone(), sig.clone())).cloned().unwrap_or_default();
        println!("KNOWN-FINDING: property={} {} count={} {}", spec.property, sig, n, d);
    }
    let rdir = PathBuf::from(verif_dir()).join("replays");
    let _ = std::fs::create_dir_all(&rdir);
    // one replay per signature
    let mut seen = HashSet::new();
    for v in merged.violations.iter().skip(regression_violations) {
        exit = 1;
        if !seen.insert(v.sig.clone()) { continue; }
        let h = hash64(&(v.sig.clone(), v.case.to_string()));
        let path = rdir.join(format!("{}-{:016x}.json", spec.property, h));
        std::fs::write(&path, serde_json::to_vec_pretty(v).unwrap()).unwrap();
        println!("VIOLATION property={} replay={}", spec.property, path.display());
        let mut d = v.detail.clone(); if d.len() > 400 { let mut c = 400; while !d.is_char_boundary(c) { c -= 1 } d.truncate(c); }
        println!("  section={} sig={} detail={}", v.section, v.sig, d);
    }
    if regression_violations > 0 { exit = 1; }
    for m in infra.iter().chain(merged.inconclusive.iter()) { println!("INCONCLUSIVE: {}", m); }
    if exit == 0 && (!infra.is_empty() || !merged.inconclusive.is_empty()) { exit = 2; }

    let distinct = nontrivial.len() as u64 + merged.nontrivial_by_construction;
    let wall = t0.elapsed().as_secs_f64();
    let exhaustive = !merged.exhaustive_sections.is_empty();
    let mut coverage = json!({
        "evaluations": merged.evaluations,
        "distinct_nontrivial": distinct,
        "rule": spec.rule,
        "samples": merged.samples,
        "sections": merged.sections,
        "classes": merged.classes,
        "discarded": merged.discards,
        "known_findings_fired": merged.known,
        "known_finding_examples": merged.known_examples,
        "notes": merged.notes,
        "regressions_replayed": regression_count,
        "workers": spec.workers,
        "slowest_case_ms": merged.slowest_case_ms,
        "per_case_limit_s": spec.case_limit_s,
        "rws_source": option_env!("RWS_VERIF_SRC_USED").unwrap_or("/repo"),
    });
    if exhaustive {
        coverage["exhaustive"] = json!(true);
        coverage["exhaustive_sections"] = json!(merged.exhaustive_sections.iter().collect::<std::collections::BTreeSet<_>>());
    }
    let evidence = json!({
        "property_id": spec.property,
        "tier": spec.tier.name(),
        "seed": spec.seed,
        "level": spec.level,
        "coverage": coverage,
        "assumptions": spec.assumptions,
        "wall_s": (wall * 1000.0).round() / 1000.0,
        "violations": merged.violations.len(),
    });
    // evidence/ describes /repo; a run against another source tree (tools/mutant_check.sh) writes its evidence next to its build output
    let edir = if std::env::var("RWS_VERIF_SRC").map(|s| s != "/repo").unwrap_or(false) { PathBuf::from(verif_dir()).join(".build").join(std::env::var("RWSV_ALT").unwrap_or_else(|_| "alt".to_string())).join("evidence") } else { PathBuf::from(verif_dir()).join("evidence") };
    let _ = std::fs::create_dir_all(&edir);
    std::fs::write(edir.join(format!("{}.json", spec.property)), serde_json::to_vec_pretty(&evidence).unwrap()).unwrap();
    println!("{} {} seed={} evaluations={} distinct_nontrivial={} known={} violations={} wall={:.1}s exit={}",
             spec.property, spec.tier.name(), spec.seed, merged.evaluations, distinct, merged.known.values().sum::<u64>(), merged.violations.len(), wall, exit);
    if exit == 0 || std::env::var("RWSV_KEEP").is_err() { if exit != 2 { let _ = std::fs::remove_dir_all(&dir); } }
    exit
}

fn merge(into: &mut WorkerResult, nontrivial: &mut HashSet<u64>, r: WorkerResult) {
    into.evaluations += r.evaluations;
    into.discards += r.discards;
    into.nontrivial_by_construction += r.nontrivial_by_construction;
    for h in r.nontrivial_hashes { nontrivial.insert(h); }
    for s in r.samples { if into.samples.len() < 10 { into.samples.push(s); } }
    for (k, v) in r.classes { *into.classes.entry(k).or_insert(0) += v; }
    for (k, v) in r.known { *into.known.entry(k).or_insert(0) += v; }
    for (k, v) in r.known_examples { into.known_examples.entry(k).or_insert(v); }
    for (k, v) in r.notes { *into.notes.entry(k).or_insert(0) += v; }
    for (k, v) in r.sections { *into.sections.entry(k).or_insert(0) += v; }
    into.slowest_case_ms = into.slowest_case_ms.max(r.slowest_case_ms);
    let known = KnownFindings::load();
    for v in r.violations { if known.is_known(&v.property, &v.sig) { *into.known.entry(v.sig.clone()).or_insert(0) += 1; } else { into.violations.push(v); } }
    into.exhaustive_sections.extend(r.exhaustive_sections);
    into.inconclusive.extend(r.inconclusive);
}

/// Replay one file in a child process (so that aborts are observed). Returns (code, stdout): 0 pass, 1 fail, other infra.
pub fn replay_in_child(exe: &Path, file: &Path, dir: &Path, strict: bool) -> (i32, String) {
    let log = dir.join(format!("replay-{}.log", hash64(&file.to_string_lossy().to_string())));
    let out_path = dir.join(format!("replay-{}.out", hash64(&file.to_string_lossy().to_string())));
    let limit_s: u64 = std::env::var("RWSV_REPLAY_LIMIT_S").ok().and_then(|v| v.parse().ok()).unwrap_or(120);
    let mut cmd = std::process::Command::new(exe);
    cmd.arg("replay-child").arg(file).arg("--dir").arg(dir);
    if strict { cmd.arg("--strict"); }
    let child = cmd.stdout(std::fs::File::create(&out_path).unwrap()).stderr(std::fs::File::create(&log).unwrap()).stdin(std::process::Stdio::null()).spawn();
    let mut child = match child { Ok(c) => c, Err(_) => return (3, String::new()) };
    let deadline = Instant::now() + std::time::Duration::from_secs(limit_s);
    let status = loop {
        match child.try_wait() {
            Ok(Some(st)) => break st,
            Ok(None) => {
                if Instant::now() > deadline { let _ = child.kill(); let _ = child.wait(); return (1, format!("REPLAY-FAIL sig=hang:replay the case did not return within {} s\n", limit_s)); }
                std::thread::sleep(std::time::Duration::from_millis(10));
            }
            Err(_) => return (3, String::new()),
        }
    };
    use std::os::unix::process::ExitStatusExt;
    let text = std::fs::read_to_string(&out_path).unwrap_or_default();
    if let Some(sig) = status.signal() { return (1, format!("REPLAY-FAIL sig=abort:signal-{} process died\n", sig)); }
    (status.code().unwrap_or(3), text)
}

pub fn make_child_ctx(property: &str, tier: Tier, seed: u64, worker: u32, workers: u32, dir: &Path, strict: bool) -> Ctx {
    Ctx {
        property: property.to_string(), tier, seed, worker, workers, dir: dir.to_path_buf(), strict,
        res: RefCell::new(WorkerResult::default()),
        nontrivial: RefCell::new(HashSet::new()),
        known: KnownFindings::load(),
        section: RefCell::new(String::new()),
        sample_budget: RefCell::new(BTreeMap::new()),
        failed: RefCell::new(false),
        real_stdout: RefCell::new(None),
        inflight_map: RefCell::new(None),
        shrinking: RefCell::new(false),
        auto_sample: RefCell::new(true),
        max_shrink_iters: RefCell::new(4096),
        last_failure: RefCell::new(None),
    }
}

// ------------------------------------------------------------------------------------------------
pub const INFLIGHT_CAP: usize = 8 << 20;

pub struct InflightMap { ptr: *mut u8 }
unsafe impl Send for InflightMap {}

impl InflightMap {
    pub fn create(path: &Path) -> Option<InflightMap> {
        use std::os::unix::io::AsRawFd;
        let f = std::fs::OpenOptions::new().read(true).write(true).create(true).truncate(true).open(path).ok()?;
        f.set_len(INFLIGHT_CAP as u64).ok()?;
        let p = unsafe { libc::mmap(std::ptr::null_mut(), INFLIGHT_CAP, libc::PROT_READ | libc::PROT_WRITE, libc::MAP_SHARED, f.as_raw_fd(), 0) };
        if p == libc::MAP_FAILED { return None; }
        Some(InflightMap { ptr: p as *mut u8 })
    }
    pub fn set(&mut self, bytes: &[u8]) {
        let n = bytes.len().min(INFLIGHT_CAP - 8);
        unsafe {
            std::ptr::write_volatile(self.ptr as *mut u64, 0);
            std::sync::atomic::compiler_fence(std::sync::atomic::Ordering::SeqCst);
            std::ptr::copy_nonoverlapping(bytes.as_ptr(), self.ptr.add(8), n);
            std::sync::atomic::compiler_fence(std::sync::atomic::Ordering::SeqCst);
            std::ptr::write_volatile(self.ptr as *mut u64, n as u64);
        }
    }
    pub fn read(path: &Path) -> Option<Vec<u8>> {
        let b = std::fs::read(path).ok()?;
        if b.len() < 8 { return None; }
        let n = u64::from_le_bytes(b[..8].try_into().ok()?) as usize;
        if n == 0 || 8 + n > b.len() { return None; }
        Some(b[8..8 + n].to_vec())
    }
}
