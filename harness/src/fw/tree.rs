//! G-TREE: generated document trees (with secrets planted outside the served root), M-LOOKUP and M-MIME.
#![allow(dead_code)]
use super::hash64;
use proptest::prelude::*;
use serde::{Deserialize, Serialize};
use std::path::{Path, PathBuf};

// ---- M-MIME: the harness's transcription of the extension table ----------------------------------
pub const EXT_TABLE: &[(&str, &str)] = &[
    ("txt", "text/plain"), ("css", "text/css"), ("html", "text/html"), ("htm", "text/html"), ("js", "text/javascript"), ("mjs", "text/javascript"),
    ("apng", "image/apng"), ("avif", "image/avif"), ("gif", "image/gif"), ("svg", "image/svg+xml"),
    ("jpg", "image/jpeg"), ("jpeg", "image/jpeg"), ("jpe", "image/jpeg"), ("jif", "image/jpeg"), ("jfif", "image/jpeg"),
    ("png", "image/png"), ("webp", "image/webp"), ("bmp", "image/bmp"), ("ico", "image/x-icon"), ("cur", "image/x-icon"), ("tif", "image/tiff"), ("tiff", "image/tiff"),
    ("aac", "audio/aac"), ("flac", "audio/flac"), ("wav", "audio/wav"), ("m4a", "audio/mp4"), ("oga", "audio/oga"), ("3gp", "video/3gpp"),
    ("mpg", "video/mpeg"), ("mpeg", "video/mpeg"), ("mp4", "video/mp4"), ("m4v", "video/mp4"), ("m4p", "video/mp4"), ("ogg", "video/ogg"), ("ogv", "video/ogg"),
    ("mov", "video/quicktime"), ("webm", "video/webm"), ("abw", "application/x-abiword"), ("avi", "video/x-msvideo"), ("azw", "application/vnd.amazon.ebook"),
    ("bin", "application/octet-stream"), ("bz", "application/x-bzip"), ("bz2", "application/x-bzip2"), ("cda", "application/x-cdf"), ("csh", "application/x-csh"),
    ("csv", "text/csv"), ("doc", "application/msword"), ("docx", "application/vnd.openxmlformats-officedocument.wordprocessingml.document"),
    ("eot", "application/vnd.ms-fontobject"), ("epub", "application/epub+zip"), ("gz", "application/gzip"), ("ics", "text/calendar"), ("jar", "application/java-archive"),
    ("json", "application/json"), ("jsonld", "application/ld+json"), ("midi", "audio/midi"), ("mid", "audio/midi"), ("mp3", "audio/mpeg"),
    ("mpkg", "application/vnd.apple.installer+xml"), ("odp", "application/vnd.oasis.opendocument.presentation"), ("ods", "application/vnd.oasis.opendocument.spreadsheet"),
    ("odt", "application/vnd.oasis.opendocument.text"), ("ogx", "application/ogg"), ("opus", "audio/opus"), ("otf", "font/otf"), ("pdf", "application/pdf"),
    ("php", "application/x-httpd-php"), ("ppt", "application/vnd.ms-powerpoint"), ("pptx", "application/vnd.openxmlformats-officedocument.presentationml.presentation"),
    ("rar", "application/vnd.rar"), ("rtf", "application/rtf"), ("sh", "application/x-sh"), ("swf", "application/x-shockwave-flash"), ("tar", "application/x-tar"),
    ("ts", "video/mp2t"), ("ttf", "font/ttf"), ("vsd", "application/vnd.visio"), ("weba", "audio/webm"), ("woff", "font/woff"), ("woff2", "font/woff2"),
    ("xhtml", "application/xhtml+xml"), ("xls", "application/vnd.ms-excel"), ("xlsx", "application/vnd.openxmlformats-officedocument.spreadsheetml.sheet"),
    ("xml", "application/xml"), ("xul", "application/vnd.mozilla.xul+xml"), ("zip", "application/zip"), ("7z", "application/x-7z-compressed"), ("3g2", "video/3gpp2"),
    ("crt", "application/x-x509-ca-cert"),
];
pub const DEFAULT_MIME: &str = "application/octet-stream";

/// Extension of a file name: text after the last dot, if the dot is not the first character and something follows it.
pub fn extension_of(name: &str) -> Option<&str> {
    let base = name.rsplit('/').next().unwrap_or(name);
    match base.rfind('.') { Some(0) | None => None, Some(i) if i + 1 < base.len() => Some(&base[i + 1..]), _ => None }
}

/// Acceptable media types for a file name (usually one).
pub fn mime_candidates(name: &str) -> Vec<&'static str> {
    match extension_of(name) {
        None => vec![DEFAULT_MIME],
        Some(ext) => {
            if let Some((_, t)) = EXT_TABLE.iter().find(|(e, _)| *e == ext) {
                if ext == "oga" { return vec!["audio/oga", "audio/ogg"]; } // rws's constant spells the registered audio/ogg as audio/oga; either is accepted
                return vec![t];
            }
            // extension in other letter case: the table is lower case; "registered for its extension" can be read either way
            let lower = ext.to_lowercase();
            if let Some((_, t)) = EXT_TABLE.iter().find(|(e, _)| *e == lower) { return vec![DEFAULT_MIME, t]; }
            vec![DEFAULT_MIME]
        }
    }
}

// ---- tree specification ---------------------------------------------------------------------------
#[derive(Clone, Debug, Serialize, Deserialize, PartialEq, Eq, Hash)]
pub enum EntrySpec {
    File { name: String, size: u32 },
    Dir { name: String, index: Option<u32>, entries: Vec<EntrySpec>, #[serde(default)] html_twin: Option<u32> },
    /// symlink to a regular file inside the root (target chosen among files created before it); style selects the spelling of the link text
    LinkToFile { name: String, target: u16, style: u8 },
    /// symlink to a designated linked-ok file outside the root (RWSV-LINKED marker)
    LinkToOutsideFile { name: String, size: u32, absolute: bool },
    /// symlink to a directory inside the root
    LinkToDir { name: String, target: u16 },
    /// symlink to a designated directory outside the root (which contains linked-ok files and has a secret NEXT to it)
    LinkToOutsideDir { name: String },
    /// link -> link -> file
    LinkChain { name: String, target: u16 },
}

impl EntrySpec {
    pub fn name(&self) -> &str {
        match self {
            EntrySpec::File { name, .. } | EntrySpec::Dir { name, .. } | EntrySpec::LinkToFile { name, .. } | EntrySpec::LinkToOutsideFile { name, .. }
            | EntrySpec::LinkToDir { name, .. } | EntrySpec::LinkToOutsideDir { name } | EntrySpec::LinkChain { name, .. } => name,
        }
    }
}

#[derive(Clone, Debug, Serialize, Deserialize, PartialEq, Eq, Hash)]
pub struct TreeSpec {
    pub levels_above: u8,
    pub root_name: String,
    pub root_index: Option<u32>,
    pub root_404: Option<u32>,
    pub entries: Vec<EntrySpec>,
    pub salt: u64,
}

pub const RESERVED_ROOT: [&str; 10] = ["style.css", "script.js", "favicon.svg", "form-get-method", "form-url-encoded-enctype-post-method", "form-multipart-enctype-post-method", "file-upload", "index.html", "404.html", "rws.config.toml"];

pub fn size_strategy(thorough: bool) -> impl Strategy<Value = u32> {
    // files of a megabyte and more also in the quick tier (a few per run): read / write loops that only misbehave beyond the first megabyte
    let big: Vec<u32> = if thorough { vec![65535, 65536, 65537, 1048575, 1048576, 1048577, 2_500_000] } else { vec![65535, 65536, 65537, 65536, 65537, 65535, 1048577, 2_500_000] };
    prop_oneof![
        3 => prop::sample::select(vec![0u32, 1, 2, 3]),
        6 => 4u32..600,
        2 => prop::sample::select(vec![4095u32, 4096, 4097, 8191, 8192, 8193, 9999, 10000, 10001]),
        1 => prop::sample::select(big),
    ]
}

pub fn stem_strategy() -> impl Strategy<Value = String> {
    prop_oneof![
        8 => "[A-Za-z0-9_-]{1,12}",
        2 => ("[A-Za-z0-9_-]{1,6}", "[A-Za-z0-9_-]{1,6}").prop_map(|(a, b)| format!("{}.{}", a, b)),
        1 => ("[a-z0-9]{1,4}", "[a-z0-9]{1,4}", "[a-z0-9]{1,4}").prop_map(|(a, b, c)| format!("{}.{}.{}", a, b, c)),
        1 => ("[a-z0-9]{1,4}", "[a-z0-9]{1,4}").prop_map(|(a, b)| format!("{}..{}", a, b)),
        2 => ("[A-Za-z0-9]{0,5}", prop::sample::select(vec!["é", "ж", "中", "ü", "日本", "ñandú"]), "[A-Za-z0-9]{0,5}").prop_map(|(a, m, b)| format!("{}{}{}", a, m, b)),
        // characters that are legal in a request target and mean something to URL handling (the lookup is literal: no decoding).
        // Not generated: whitespace, ' " & | ; - the file-ext dependency refuses such paths by design ("Path contains not allowed characters"),
        // the statement's trees do not include them
        1 => ("[A-Za-z0-9]{1,4}", prop::sample::select(vec!["%20", "%41", "%2e", "%", "+", "~", ",", "=", "@", "!", "$", "(", ")", "*", ":", "%25", "%2F"]), "[A-Za-z0-9]{0,4}").prop_map(|(a, m, b)| format!("{}{}{}", a, m, b)),
    ].prop_filter("leading dash or dot", |s| !s.starts_with('.') && !s.starts_with('-'))
}

pub fn file_name_strategy() -> impl Strategy<Value = String> {
    let exts: Vec<&'static str> = EXT_TABLE.iter().map(|(e, _)| *e).collect();
    prop_oneof![
        70 => (stem_strategy(), prop::sample::select(exts.clone())).prop_map(|(s, e)| format!("{}.{}", s, e)),
        10 => (stem_strategy(), prop::sample::select(vec!["html", "html", "txt", "htm"])).prop_map(|(s, e)| format!("{}.{}", s, e)),
        10 => (stem_strategy(), prop::sample::select(vec!["dat", "rs", "md", "x", "yaml", "log", "htmlx", "tx", "jsonx", "wasm"])).prop_map(|(s, e)| format!("{}.{}", s, e)),
        3 => (stem_strategy(), prop::sample::select(vec!["TXT", "Html", "PNG", "Js"])).prop_map(|(s, e)| format!("{}.{}", s, e)),
        12 => "[A-Za-z0-9_]{1,10}",
        // names that extend the name of a special route or of the index page, and the index page's name in other letter case: each is an ordinary file
        4 => prop::sample::select(vec!["script.js.map", "script.json", "style.css.gz", "style.cssx", "favicon.svg.png", "favicon.svgz", "index.html.bak", "index.htmlx", "index.htm", "404.html.bak", "script.js", "style.css", "favicon.svg"]).prop_map(|s| s.to_string()),
        3 => prop::sample::select(vec!["Index.html", "INDEX.HTML", "index.HTML", "Index.Html"]).prop_map(|s| s.to_string()),
    ]
}

fn entry_strategy(depth: u32, thorough: bool) -> BoxedStrategy<EntrySpec> {
    let file = (file_name_strategy(), size_strategy(thorough)).prop_map(|(name, size)| EntrySpec::File { name, size });
    let links = prop_oneof![
        3 => (file_name_strategy(), any::<u16>(), 0u8..4).prop_map(|(name, target, style)| EntrySpec::LinkToFile { name, target, style }),
        2 => (file_name_strategy(), 1u32..300, any::<bool>()).prop_map(|(name, size, absolute)| EntrySpec::LinkToOutsideFile { name, size, absolute }),
        1 => (stem_strategy(), any::<u16>()).prop_map(|(name, target)| EntrySpec::LinkToDir { name, target }),
        2 => stem_strategy().prop_map(|name| EntrySpec::LinkToOutsideDir { name }),
        1 => (file_name_strategy(), any::<u16>()).prop_map(|(name, target)| EntrySpec::LinkChain { name, target }),
    ];
    if depth == 0 {
        prop_oneof![8 => file, 2 => links].boxed()
    } else {
        // directory names may also carry the two characters that end the path of a request target ('#', '?'): such a directory cannot be
        // addressed by a raw target (C02 / C09 skip those paths), but it exists on disk - guards and parsers that disagree on where the path ends
        // meet it (C01)
        let dir_name = prop_oneof![5 => stem_strategy(), 1 => ("[a-z]{1,3}", prop::sample::select(vec!["#", "?", "#?", "?#"]), "[a-z]{0,3}").prop_map(|(a, m, b)| format!("{}{}{}", a, m, b))];
        let dir = (dir_name, proptest::option::weighted(0.6, size_strategy(false)), proptest::collection::vec(entry_strategy(depth - 1, thorough), 0..5), proptest::option::weighted(0.25, 1u32..300))
            .prop_map(|(name, index, entries, html_twin)| EntrySpec::Dir { name, index, entries, html_twin });
        prop_oneof![6 => file, 3 => dir, 2 => links].boxed()
    }
}

pub fn tree_strategy(thorough: bool) -> impl Strategy<Value = TreeSpec> {
    (1u8..=5, "[a-z][a-z0-9]{2,7}", proptest::option::weighted(0.3, 1u32..400), proptest::option::weighted(0.3, 1u32..400),
     proptest::collection::vec(entry_strategy(3, thorough), 1..12), any::<u64>())
        .prop_map(|(levels_above, root_name, root_index, root_404, entries, salt)| TreeSpec { levels_above, root_name, root_index, root_404, entries, salt })
}

// ---- content ----------------------------------------------------------------------------------------
pub fn marker(kind: &str, salt: u64, key: &str) -> String {
    format!("RWSV-{}-{:016x}{:016x}", kind, hash64(&(salt, key, 1u8)), hash64(&(salt, key, 2u8)))
}

/// File content: marker, then filler; every byte value occurs in files >= 512 bytes. Never contains CRLF--String_separator.
pub fn content(kind: &str, salt: u64, key: &str, size: usize) -> Vec<u8> {
    let m = marker(kind, salt, key);
    if kind == "SECRET" {
        // secrets consist of their marker only (repeated), so that no 12-byte window of a secret occurs in any legitimate content
        let mut v = Vec::with_capacity(size + m.len() + 1);
        while v.len() < size { v.extend_from_slice(m.as_bytes()); v.push(b'|'); }
        return v;
    }
    let mut v: Vec<u8> = Vec::with_capacity(size);
    v.extend_from_slice(m.as_bytes());
    v.push(b'\n');
    let mut x = hash64(&(salt, key, 3u8));
    let mut i = 0usize;
    while v.len() < size {
        if i < 256 { v.push(i as u8); } else {
            x ^= x << 13; x ^= x >> 7; x ^= x << 17;
            v.push((x >> 24) as u8);
        }
        i += 1;
    }
    v.truncate(size);
    v
}

// ---- materialised tree --------------------------------------------------------------------------------
#[derive(Clone, Debug)]
pub struct Secret { pub abs: PathBuf, pub marker: String, pub up: usize, pub name: String, pub shape: &'static str }

#[derive(Clone, Debug)]
pub struct TFile { pub url: String, pub marker: String, pub kind: &'static str }

#[derive(Clone, Debug)]
pub struct TDir { pub url: String, pub has_index: bool, pub names: Vec<String>, pub outside: bool }

pub struct Tree {
    pub base: PathBuf,
    pub root: PathBuf,
    pub spec: TreeSpec,
    /// url paths (from the root) of regular files and of links resolving to regular files
    pub files: Vec<TFile>,
    pub dirs: Vec<TDir>,
    pub secrets: Vec<Secret>,
    /// names of the ancestor directories, from the root's parent upwards
    pub ancestor_names: Vec<String>,
    /// links to outside directories: (url of link, name of the secret file lying next to the outside directory)
    pub outside_dir_links: Vec<(String, String)>,
    pub all_markers: Vec<(String, String)>,
}

impl Drop for Tree {
    fn drop(&mut self) { let _ = std::fs::remove_dir_all(&self.base); }
}

static TREE_COUNTER: std::sync::atomic::AtomicU64 = std::sync::atomic::AtomicU64::new(0);

fn uniq(names: &mut Vec<String>, name: &str, at_root: bool) -> Option<String> {
    let n = name.to_string();
    if names.iter().any(|x| x.eq_ignore_ascii_case(&n)) { return None; }
    if at_root && RESERVED_ROOT.iter().any(|r| r.eq_ignore_ascii_case(&n) || n.to_lowercase().starts_with("file-upload")) { return None; }
    // a name X whose X.html also exists is allowed (overlap class); nothing else to check
    names.push(n.clone());
    Some(n)
}

impl Tree {
    pub fn materialise(spec: &TreeSpec, scratch: &Path) -> std::io::Result<Tree> {
        let n = TREE_COUNTER.fetch_add(1, std::sync::atomic::Ordering::SeqCst);
        let base = scratch.join(format!("rwsv-tree-{}-{}", std::process::id(), n));
        let _ = std::fs::remove_dir_all(&base);
        std::fs::create_dir_all(&base)?;
        let mut t = Tree { base: base.clone(), root: PathBuf::new(), spec: spec.clone(), files: vec![], dirs: vec![], secrets: vec![], ancestor_names: vec![], outside_dir_links: vec![], all_markers: vec![] };
        let salt = spec.salt;
        // ancestors: base/a1/a2/.../aN/root ; secrets at every level including base
        let mut dir = base.clone();
        let mut level_dirs = vec![dir.clone()];
        for k in 0..spec.levels_above.max(1) {
            let name = format!("anc{}", k);
            dir = dir.join(&name);
            std::fs::create_dir_all(&dir)?;
            level_dirs.push(dir.clone());
        }
        let root = dir.join(&spec.root_name);
        std::fs::create_dir_all(&root)?;
        t.root = root.clone();
        // level_dirs.last() is the root's parent (up = 1)
        let nlev = level_dirs.len();
        for (i, d) in level_dirs.iter().enumerate() {
            let up = nlev - i;
            if i + 1 < nlev { /* name of child ancestor */ }
            for (name, shape) in [(format!("secret-{}.txt", up), "file"), ("index.html".to_string(), "index"), (format!("page-{}.html", up), "html-fallback")] {
                let key = format!("secret/{}/{}", up, name);
                let m = marker("SECRET", salt, &key);
                std::fs::write(d.join(&name), content("SECRET", salt, &key, 120))?;
                t.secrets.push(Secret { abs: d.join(&name), marker: m, up, name: name.clone(), shape });
            }
        }
        for i in (0..nlev).rev() { t.ancestor_names.push(level_dirs[i].file_name().map(|s| s.to_string_lossy().to_string()).unwrap_or_default()); }
        // siblings whose name has the root's name as a prefix
        let parent = level_dirs.last().unwrap().clone();
        for sib in [format!("{}-sibling", spec.root_name), format!("{}x", spec.root_name)] {
            let sd = parent.join(&sib);
            std::fs::create_dir_all(&sd)?;
            for (name, shape) in [("secret-s.txt".to_string(), "sibling-file"), ("index.html".to_string(), "sibling-index")] {
                let key = format!("sibling/{}/{}", sib, name);
                std::fs::write(sd.join(&name), content("SECRET", salt, &key, 100))?;
                t.secrets.push(Secret { abs: sd.join(&name), marker: marker("SECRET", salt, &key), up: 1, name: format!("{}/{}", sib, name), shape });
            }
        }
        // sibling files whose name is the root's name with something appended (an editor backup, a dump next to the directory)
        for (ext, shape) in [(".bak", "sibling-plain-file"), ("-private.txt", "sibling-plain-file"), (".html", "sibling-html-twin-of-the-root")] {
            let sib = format!("{}{}", spec.root_name, ext);
            let key = format!("sibling-file/{}", sib);
            std::fs::write(parent.join(&sib), content("SECRET", salt, &key, 100))?;
            t.secrets.push(Secret { abs: parent.join(&sib), marker: marker("SECRET", salt, &key), up: 1, name: sib.clone(), shape });
        }
        // outside area for owner-placed links: parent/linked-area/{ok-dir/{f.txt,index.html}, beside.txt (SECRET next to the linked dir)}
        let linked_area = parent.join("linked-area");
        std::fs::create_dir_all(linked_area.join("ok-dir"))?;
        for name in ["f.txt", "index.html", "p.html"] {
            let key = format!("linked/ok-dir/{}", name);
            std::fs::write(linked_area.join("ok-dir").join(name), content("LINKED", salt, &key, 90))?;
        }
        {
            let key = "secret/beside-linked-dir".to_string();
            std::fs::write(linked_area.join("beside.txt"), content("SECRET", salt, &key, 100))?;
            t.secrets.push(Secret { abs: linked_area.join("beside.txt"), marker: marker("SECRET", salt, &key), up: 0, name: "beside.txt".into(), shape: "beside-linked-dir" });
            let key = "secret/beside-linked-dir-index".to_string();
            std::fs::write(linked_area.join("index.html"), content("SECRET", salt, &key, 100))?;
            t.secrets.push(Secret { abs: linked_area.join("index.html"), marker: marker("SECRET", salt, &key), up: 0, name: "index.html".into(), shape: "beside-linked-dir" });
        }
        if let Some(sz) = spec.root_index { std::fs::write(root.join("index.html"), content("FILE", salt, "/index.html", sz.max(60) as usize))?; t.files.push(TFile { url: "/index.html".into(), marker: marker("FILE", salt, "/index.html"), kind: "root-index" }); }
        if let Some(sz) = spec.root_404 { std::fs::write(root.join("404.html"), content("FILE", salt, "/404.html", sz.max(60) as usize))?; t.files.push(TFile { url: "/404.html".into(), marker: marker("FILE", salt, "/404.html"), kind: "root-404" }); }
        let mut created_files: Vec<String> = vec![];
        let mut created_dirs: Vec<String> = vec![];
        let mut link_seq = 0u32;
        t.build_dir(&root.clone(), "", &spec.entries, true, &mut created_files, &mut created_dirs, &linked_area, &mut link_seq)?;
        let mut rootnames: Vec<String> = std::fs::read_dir(&root)?.filter_map(|e| e.ok()).map(|e| e.file_name().to_string_lossy().to_string()).collect();
        rootnames.sort();
        t.dirs.push(TDir { url: "/".into(), has_index: spec.root_index.is_some(), names: rootnames, outside: false });
        Ok(t)
    }

    fn build_dir(&mut self, dir: &Path, url: &str, entries: &[EntrySpec], at_root: bool, files: &mut Vec<String>, dirs: &mut Vec<String>, linked_area: &Path, link_seq: &mut u32) -> std::io::Result<()> {
        let salt = self.spec.salt;
        let mut names: Vec<String> = vec![];
        if at_root { if self.spec.root_index.is_some() { names.push("index.html".into()); } if self.spec.root_404.is_some() { names.push("404.html".into()); } }
        for e in entries {
            let name = match uniq(&mut names, e.name(), at_root) { Some(n) => n, None => continue };
            let eurl = format!("{}/{}", url, name);
            let path = dir.join(&name);
            match e {
                EntrySpec::File { size, .. } => {
                    let sz = *size as usize;
                    std::fs::write(&path, content_sized(salt, &eurl, sz))?;
                    set_mtime_class(&path, super::hash64(&(salt, eurl.as_str(), "mtime")));
                    self.files.push(TFile { url: eurl.clone(), marker: marker("FILE", salt, &eurl), kind: "file" });
                    files.push(eurl);
                }
                EntrySpec::Dir { index, entries, html_twin, .. } => {
                    std::fs::create_dir_all(&path)?;
                    dirs.push(eurl.clone());
                    if let Some(sz) = html_twin {
                        // X/ next to X.html: the overlap class of the lookup rule
                        let tname = format!("{}.html", name);
                        if uniq(&mut names, &tname, at_root).is_some() {
                            let turl = format!("{}/{}", url, tname);
                            std::fs::write(dir.join(&tname), content_sized(salt, &turl, (*sz).max(60) as usize))?;
                            self.files.push(TFile { url: turl.clone(), marker: marker("FILE", salt, &turl), kind: "html-twin-of-directory" });
                            files.push(turl);
                        }
                    }
                    if let Some(sz) = index {
                        let iurl = format!("{}/index.html", eurl);
                        std::fs::write(path.join("index.html"), content_sized(salt, &iurl, (*sz).max(1) as usize))?;
                        self.files.push(TFile { url: iurl.clone(), marker: marker("FILE", salt, &iurl), kind: "dir-index" });
                        files.push(iurl);
                    }
                    self.build_dir(&path, &eurl, entries, false, files, dirs, linked_area, link_seq)?;
                    let mut n: Vec<String> = std::fs::read_dir(&path)?.filter_map(|e| e.ok()).map(|e| e.file_name().to_string_lossy().to_string()).collect();
                    n.sort();
                    self.dirs.push(TDir { url: eurl, has_index: index.is_some(), names: n, outside: false });
                }
                EntrySpec::LinkToFile { target, style, .. } => {
                    if files.is_empty() { names.pop(); continue; }
                    let turl = files[super::util::pick_idx(*target, files.len())].clone();
                    let tabs = self.root.join(&turl[1..]);
                    let text = link_text(dir, &tabs, *style);
                    std::os::unix::fs::symlink(&text, &path)?;
                    self.files.push(TFile { url: eurl, marker: marker("FILE", salt, &turl), kind: "link-to-file" });
                    // shadow secrets: where a relative link text lands when it is resolved from another directory than the link's own
                    // (the served root, a directory between the root and the link): if that is outside the root, a secret is planted there
                    if !Path::new(&text).is_absolute() {
                        let mut bases: Vec<PathBuf> = vec![self.root.clone()];
                        let mut p = dir.parent();
                        while let Some(q) = p { if q.starts_with(&self.root) && q != self.root { bases.push(q.to_path_buf()); p = q.parent(); } else { break; } }
                        for b in bases {
                            if b == dir { continue; }
                            let mut cand = PathBuf::new();
                            for c in b.join(&text).components() { match c { std::path::Component::ParentDir => { cand.pop(); } std::path::Component::CurDir => {} other => cand.push(other.as_os_str()) } }
                            if cand.starts_with(&self.root) || !cand.starts_with(&self.base) || cand.exists() { continue; }
                            if let Some(parent) = cand.parent() { if std::fs::create_dir_all(parent).is_err() { continue; } }
                            let key = format!("shadow/{}", cand.display());
                            if std::fs::write(&cand, content("SECRET", salt, &key, 120)).is_ok() {
                                self.secrets.push(Secret { abs: cand.clone(), marker: marker("SECRET", salt, &key), up: 1, name: cand.file_name().map(|s| s.to_string_lossy().to_string()).unwrap_or_default(), shape: "link-text-resolved-from-another-directory" });
                            }
                        }
                    }
                }
                EntrySpec::LinkChain { target, .. } => {
                    if files.is_empty() { names.pop(); continue; }
                    let turl = files[super::util::pick_idx(*target, files.len())].clone();
                    let tabs = self.root.join(&turl[1..]);
                    *link_seq += 1;
                    let mid = format!("mid{}lnk", link_seq);
                    if uniq(&mut names, &mid, at_root).is_none() { names.pop(); continue; }
                    std::os::unix::fs::symlink(&tabs, dir.join(&mid))?;
                    std::os::unix::fs::symlink(&mid, &path)?;
                    self.files.push(TFile { url: format!("{}/{}", url, mid), marker: marker("FILE", salt, &turl), kind: "link-to-file" });
                    self.files.push(TFile { url: eurl, marker: marker("FILE", salt, &turl), kind: "link-chain" });
                }
                EntrySpec::LinkToOutsideFile { size, absolute, .. } => {
                    *link_seq += 1;
                    let oname = format!("ok{}-{}", link_seq, name);
                    let key = format!("linked/file/{}", oname);
                    let opath = linked_area.join(&oname);
                    std::fs::write(&opath, content("LINKED", salt, &key, (*size).max(50) as usize))?;
                    let text = if *absolute { opath.clone() } else { PathBuf::from(link_text(dir, &opath, 1)) };
                    std::os::unix::fs::symlink(&text, &path)?;
                    self.files.push(TFile { url: eurl, marker: marker("LINKED", salt, &key), kind: "link-to-outside-file" });
                }
                EntrySpec::LinkToDir { target, .. } => {
                    if dirs.is_empty() { names.pop(); continue; }
                    let turl = dirs[super::util::pick_idx(*target, dirs.len())].clone();
                    // never link to an ancestor of this directory (would make the walk infinite)
                    if url.starts_with(&turl) { names.pop(); continue; }
                    let tabs = self.root.join(&turl[1..]);
                    std::os::unix::fs::symlink(&tabs, &path)?;
                    let has_index = tabs.join("index.html").is_file();
                    let mut n: Vec<String> = std::fs::read_dir(&tabs)?.filter_map(|e| e.ok()).map(|e| e.file_name().to_string_lossy().to_string()).collect();
                    n.sort();
                    if has_index { self.files.push(TFile { url: format!("{}/index.html", eurl), marker: marker("FILE", salt, &format!("{}/index.html", turl)), kind: "via-link-to-dir" }); }
                    self.dirs.push(TDir { url: eurl, has_index, names: n, outside: false });
                }
                EntrySpec::LinkToOutsideDir { .. } => {
                    std::os::unix::fs::symlink(linked_area.join("ok-dir"), &path)?;
                    for f in ["f.txt", "index.html", "p.html"] {
                        self.files.push(TFile { url: format!("{}/{}", eurl, f), marker: marker("LINKED", salt, &format!("linked/ok-dir/{}", f)), kind: "via-link-to-outside-dir" });
                    }
                    self.dirs.push(TDir { url: eurl.clone(), has_index: true, names: vec!["f.txt".into(), "index.html".into(), "p.html".into()], outside: true });
                    self.outside_dir_links.push((eurl, "beside.txt".into()));
                }
            }
        }
        Ok(())
    }

    pub fn abs(&self, url: &str) -> PathBuf { self.root.join(url.trim_start_matches('/')) }
}

/// Modification time as a generated attribute of regular files: half keep "now"; the others get a time in the future (a day, twenty years, the year 2100),
/// at the start of the epoch, or before it (what a restored backup, a skewed clock or an unpacked archive leave behind).
fn set_mtime_class(path: &Path, h: u64) {
    let now = std::time::SystemTime::now().duration_since(std::time::UNIX_EPOCH).map(|d| d.as_secs() as i64).unwrap_or(0);
    let secs: i64 = match h % 10 { 0 => now + 86_400, 1 => now + 20 * 365 * 86_400, 2 => 4_102_444_800, 3 => 1, 4 => -86_400, _ => return };
    use std::os::unix::ffi::OsStrExt;
    if let Ok(c) = std::ffi::CString::new(path.as_os_str().as_bytes()) {
        let times = [libc::timespec { tv_sec: secs, tv_nsec: 0 }, libc::timespec { tv_sec: secs, tv_nsec: 0 }];
        unsafe { libc::utimensat(libc::AT_FDCWD, c.as_ptr(), times.as_ptr(), 0); }
    }
}

fn content_sized(salt: u64, url: &str, size: usize) -> Vec<u8> {
    // small files cannot hold the marker; they hold its prefix
    content("FILE", salt, url, size)
}

fn link_text(from_dir: &Path, target_abs: &Path, style: u8) -> String {
    // relative path from from_dir to target_abs
    let f: Vec<_> = from_dir.components().collect();
    let t: Vec<_> = target_abs.components().collect();
    let mut i = 0;
    while i < f.len() && i < t.len() && f[i] == t[i] { i += 1; }
    let mut rel = PathBuf::new();
    for _ in i..f.len() { rel.push(".."); }
    for c in &t[i..] { rel.push(c.as_os_str()); }
    let rel = rel.to_string_lossy().to_string();
    match style {
        0 | 1 => rel,
        2 => format!("./{}", rel),
        _ => target_abs.to_string_lossy().to_string(),
    }
}

// ---- M-LOOKUP --------------------------------------------------------------------------------------
#[derive(Clone, Debug, PartialEq, Eq)]
pub enum Selected {
    /// a regular file on disk (path as the lookup spelt it, not canonicalised) selected by `rule`
    File { path: PathBuf, rule: &'static str },
    /// the built-in page/asset of the server (no file of that name in the root)
    BuiltIn(&'static str),
    Nothing,
}

/// The documented lookup for a path (no query/fragment) under `root`: special routes, the file itself, index.html inside the
/// directory, the file with .html appended.
pub fn lookup(root: &Path, path: &str) -> Selected {
    match path {
        "/" => return if root.join("index.html").is_file() { Selected::File { path: root.join("index.html"), rule: "root-index" } } else { Selected::BuiltIn("index") },
        "/style.css" => return if root.join("style.css").is_file() { Selected::File { path: root.join("style.css"), rule: "asset" } } else { Selected::BuiltIn("style.css") },
        "/script.js" => return if root.join("script.js").is_file() { Selected::File { path: root.join("script.js"), rule: "asset" } } else { Selected::BuiltIn("script.js") },
        "/favicon.svg" => return if root.join("favicon.svg").is_file() { Selected::File { path: root.join("favicon.svg"), rule: "asset" } } else { Selected::BuiltIn("favicon.svg") },
        _ => {}
    }
    if !path.starts_with('/') { return Selected::Nothing; }
    let p = PathBuf::from(format!("{}{}", root.display(), path));
    if p.is_file() { return Selected::File { path: p, rule: "file" }; }
    if p.is_dir() {
        let idx = p.join("index.html");
        if idx.is_file() { return Selected::File { path: idx, rule: "dir-index" }; }
        return Selected::Nothing;
    }
    let h = PathBuf::from(format!("{}{}.html", root.display(), path));
    if !path.ends_with('/') && h.is_file() { return Selected::File { path: h, rule: "html-fallback" }; }
    Selected::Nothing
}
