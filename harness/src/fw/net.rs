//! Real-binary route: start the rws binary in a docroot, talk to it over loopback, inject connection faults,
//! own the acceptor's schedule with SIGSTOP/SIGCONT, observe exit status and worker threads.
#![allow(dead_code)]
use std::io::{Read, Write};
use std::net::{SocketAddr, TcpStream};
use std::os::unix::io::AsRawFd;
use std::path::{Path, PathBuf};
use std::process::{Child, Command, Stdio};
use std::time::{Duration, Instant};

pub fn rws_bin() -> PathBuf { PathBuf::from(std::env::var("RWSV_RWS_BIN").unwrap_or_else(|_| format!("{}/.build/rws/release/rws", super::verif_dir()))) }

/// A free loopback port below the kernel's ephemeral range (32768..), so that no outgoing connection of a parallel check can hold it; every
/// process walks its own pseudo-random sequence and tests each candidate by binding it. The port may still be taken before the server
/// binds it: `Server::start` retries with another one, callers that fix the port themselves retry on "Address already in use".
pub fn free_port(ip: &str) -> u16 {
    static NEXT: std::sync::atomic::AtomicU64 = std::sync::atomic::AtomicU64::new(0);
    for _ in 0..200 {
        let k = NEXT.fetch_add(1, std::sync::atomic::Ordering::SeqCst);
        let port = 10240 + (super::hash64(&(std::process::id(), k, "port")) % 22000) as u16;
        if std::net::TcpListener::bind((ip, port)).is_ok() { return port; }
    }
    std::net::TcpListener::bind((ip, 0)).ok().and_then(|l| l.local_addr().ok()).map(|a| a.port()).unwrap_or(0)
}

pub struct ServerOpts {
    pub docroot: PathBuf,
    pub ip: String,
    pub threads: u32,
    /// extra environment variables (RWS_CONFIG_*), applied after the RWS_CONFIG_* variables of the harness's own environment are removed
    pub env: Vec<(String, String)>,
    pub args: Vec<String>,
    /// None: the harness chooses a free port and passes it through the environment
    pub port: Option<u16>,
    pub pass_port_and_threads: bool,
    /// run the server under a wrapper command (e.g. strace -f -o log -e trace=%file)
    pub wrapper: Vec<String>,
    /// limit on open file descriptors (RLIMIT_NOFILE) of the server process; None: inherited
    pub nofile: Option<u64>,
}

impl ServerOpts {
    pub fn new(docroot: &Path, threads: u32) -> ServerOpts { ServerOpts { docroot: docroot.to_path_buf(), ip: "127.0.0.1".into(), threads, env: vec![], args: vec![], port: None, pass_port_and_threads: true, wrapper: vec![], nofile: None } }
}

pub struct Server {
    pub child: Child,
    pub addr: SocketAddr,
    pub threads: u32,
    pub log: PathBuf,
    pub stopped: bool,
}

impl Drop for Server {
    fn drop(&mut self) {
        if self.stopped { unsafe { libc::kill(self.child.id() as i32, libc::SIGCONT); } }
        // under a wrapper (strace -f) the server is a descendant of `child`; a killed strace detaches its tracees and leaves them running
        let mut stack = vec![self.child.id() as i32];
        let mut descendants = vec![];
        while let Some(p) = stack.pop() {
            if let Ok(rd) = std::fs::read_dir(format!("/proc/{}/task", p)) {
                for t in rd.filter_map(|e| e.ok()) {
                    if let Ok(c) = std::fs::read_to_string(t.path().join("children")) { for k in c.split_whitespace().filter_map(|x| x.parse::<i32>().ok()) { descendants.push(k); stack.push(k); } }
                }
            }
        }
        let _ = self.child.kill();
        for d in descendants { unsafe { libc::kill(d, libc::SIGKILL); } }
        let _ = self.child.wait();
        let _ = std::fs::remove_file(&self.log);
    }
}

static LOG_COUNTER: std::sync::atomic::AtomicU64 = std::sync::atomic::AtomicU64::new(0);

impl Server {
    pub fn start(opts: &ServerOpts) -> Result<Server, String> {
        let mut last_err = String::new();
        for _attempt in 0..5 {
            let port = opts.port.unwrap_or_else(|| free_port(&opts.ip));
            let n = LOG_COUNTER.fetch_add(1, std::sync::atomic::Ordering::SeqCst);
            let log = super::scratch_base().join(format!("rwsv-server-{}-{}.log", std::process::id(), n));
            let logf = std::fs::File::create(&log).map_err(|e| e.to_string())?;
            let logf2 = logf.try_clone().map_err(|e| e.to_string())?;
            let mut cmd = if opts.wrapper.is_empty() { Command::new(rws_bin()) } else { let mut c = Command::new(&opts.wrapper[0]); for a in &opts.wrapper[1..] { c.arg(a); } c.arg(rws_bin()); c };
            cmd.current_dir(&opts.docroot).stdin(Stdio::null()).stdout(logf).stderr(logf2);
            for (k, _) in std::env::vars() { if k.starts_with("RWS_CONFIG_") { cmd.env_remove(k); } }
            if opts.pass_port_and_threads {
                cmd.env("RWS_CONFIG_IP", &opts.ip).env("RWS_CONFIG_PORT", port.to_string()).env("RWS_CONFIG_THREAD_COUNT", opts.threads.to_string());
            }
            for (k, v) in &opts.env { cmd.env(k, v); }
            for a in &opts.args { cmd.arg(a); }
            // the server must not outlive the worker that started it (watchdog, supervisor killed)
            { use std::os::unix::process::CommandExt; let nofile = opts.nofile; unsafe { cmd.pre_exec(move || { libc::prctl(libc::PR_SET_PDEATHSIG, libc::SIGKILL); if let Some(n) = nofile { let lim = libc::rlimit { rlim_cur: n as libc::rlim_t, rlim_max: n as libc::rlim_t }; libc::setrlimit(libc::RLIMIT_NOFILE, &lim); } Ok(()) }); } }
            let child = cmd.spawn().map_err(|e| format!("spawn {}: {}", rws_bin().display(), e))?;
            let addr: SocketAddr = format!("{}:{}", opts.ip, port).parse().map_err(|e| format!("{:?}", e))?;
            let mut s = Server { child, addr, threads: opts.threads, log, stopped: false };
            // readiness: the listener accepts connections (the probe connection is closed at once: the server sees an empty read and answers 400 into the void)
            let deadline = Instant::now() + Duration::from_secs(5);
            let mut ready = false;
            while Instant::now() < deadline {
                if let Ok(Some(st)) = s.child.try_wait() { let full = s.log_text(); last_err = format!("server exited during start-up with {:?}{}: {}", st, if full.contains("AddrInUse") || full.contains("Address already in use") { " [Address already in use]" } else { "" }, s.log_tail()); break; }
                let text = std::fs::read_to_string(&s.log).unwrap_or_default();
                if text.contains("Spawned ") { ready = true; break; }
                std::thread::sleep(Duration::from_millis(2));
            }
            if ready { return Ok(s); }
            if last_err.is_empty() { last_err = format!("server did not become ready: {}", s.log_tail()); }
        }
        Err(last_err)
    }

    pub fn log_tail(&self) -> String {
        let t = std::fs::read_to_string(&self.log).unwrap_or_default();
        let lines: Vec<&str> = t.lines().collect();
        lines[lines.len().saturating_sub(6)..].join(" | ")
    }

    pub fn log_text(&self) -> String { std::fs::read_to_string(&self.log).unwrap_or_default() }

    pub fn pid(&self) -> i32 { self.child.id() as i32 }

    /// None while running, Some(description) once the process has gone.
    pub fn exited(&mut self) -> Option<String> {
        match self.child.try_wait() {
            Ok(Some(st)) => { use std::os::unix::process::ExitStatusExt; Some(match (st.code(), st.signal()) { (Some(c), _) => format!("exit status {}", c), (_, Some(s)) => format!("signal {}", s), _ => "gone".into() }) }
            _ => None,
        }
    }

    /// Names of the threads of the server process (workers are named "0".."N-1").
    pub fn thread_names(&self) -> Vec<String> {
        let mut v = vec![];
        if let Ok(rd) = std::fs::read_dir(format!("/proc/{}/task", self.pid())) {
            for e in rd.filter_map(|e| e.ok()) { if let Ok(c) = std::fs::read_to_string(e.path().join("comm")) { v.push(c.trim().to_string()); } }
        }
        v.sort();
        v
    }

    /// Worker indices without a thread of that name. A freshly spawned thread names itself a moment after it appears in /proc,
    /// so an apparent gap is re-read for up to a second before it is believed.
    pub fn missing_workers(&self) -> Vec<u32> {
        let deadline = Instant::now() + Duration::from_secs(1);
        loop {
            let names = self.thread_names();
            let missing: Vec<u32> = (0..self.threads).filter(|i| !names.contains(&i.to_string())).collect();
            // a thread that exists but still carries the process name is a worker that has not named itself yet
            let unnamed = names.iter().filter(|n| n.as_str() == "rws").count();
            if missing.is_empty() || unnamed <= 1 || Instant::now() > deadline { return missing; }
            std::thread::sleep(Duration::from_millis(5));
        }
    }

    /// Worker threads that are running (state R or accumulating CPU time) across two samples taken `gap` apart.
    /// With no client connection open every worker must be blocked on the job queue: a worker that keeps running has not returned from a job.
    pub fn busy_workers(&self, gap: Duration) -> Vec<String> {
        let sample = |pid: i32| -> std::collections::HashMap<String, (String, char, u64)> {
            let mut m = std::collections::HashMap::new();
            if let Ok(rd) = std::fs::read_dir(format!("/proc/{}/task", pid)) {
                for e in rd.filter_map(|e| e.ok()) {
                    let tid = e.file_name().to_string_lossy().to_string();
                    let comm = std::fs::read_to_string(e.path().join("comm")).unwrap_or_default().trim().to_string();
                    if comm.parse::<u32>().is_err() { continue; }
                    if let Ok(stat) = std::fs::read_to_string(e.path().join("stat")) {
                        if let Some(rp) = stat.rfind(')') {
                            let f: Vec<&str> = stat[rp + 2..].split_whitespace().collect();
                            let state = f.get(0).and_then(|s| s.chars().next()).unwrap_or('?');
                            let cpu = f.get(11).and_then(|s| s.parse::<u64>().ok()).unwrap_or(0) + f.get(12).and_then(|s| s.parse::<u64>().ok()).unwrap_or(0);
                            m.insert(tid, (comm, state, cpu));
                        }
                    }
                }
            }
            m
        };
        let a = sample(self.pid());
        std::thread::sleep(gap);
        let b = sample(self.pid());
        let mut busy = vec![];
        for (tid, (comm, s1, c1)) in a.iter() { if let Some((_, s2, c2)) = b.get(tid) { if (*s1 == 'R' && *s2 == 'R') || c2.saturating_sub(*c1) >= 3 { busy.push(comm.clone()); } } }
        busy.sort();
        busy
    }

    pub fn sigstop(&mut self) { unsafe { libc::kill(self.pid(), libc::SIGSTOP); } self.stopped = true; }
    pub fn sigcont(&mut self) { unsafe { libc::kill(self.pid(), libc::SIGCONT); } self.stopped = false; }

    pub fn connect(&self) -> std::io::Result<TcpStream> {
        let s = TcpStream::connect_timeout(&self.addr, Duration::from_secs(3))?;
        s.set_nodelay(true).ok();
        Ok(s)
    }

    /// Send one request with a single write and read until the server closes (or the time limit).
    pub fn roundtrip(&self, request: &[u8], limit: Duration) -> Exchange {
        let mut s = match self.connect() { Ok(s) => s, Err(e) => return Exchange { bytes: vec![], outcome: Outcome::ConnectFailed(e.to_string()) } };
        if request.len() > 32768 {
            // far more than the server's buffer: the tail is written by a second thread while the response is read (a client that only writes would wait for a
            // server that only writes); the writer gives up at the limit, and earlier as soon as the server has closed or reset the connection
            if let Err(e) = s.write_all(&request[..16384]) { return Exchange { bytes: vec![], outcome: Outcome::WriteFailed(e.to_string()) }; }
            if let Ok(mut w) = s.try_clone() { let _ = w.set_write_timeout(Some(limit)); let rest = request[16384..].to_vec(); std::thread::spawn(move || { let _ = w.write_all(&rest); }); }
            return read_all(&mut s, limit);
        }
        if let Err(e) = s.write_all(request) { return Exchange { bytes: vec![], outcome: Outcome::WriteFailed(e.to_string()) }; }
        // nothing to send: half-close, otherwise the server (which has no read timeout) and this client wait for each other
        if request.is_empty() { let _ = s.shutdown(std::net::Shutdown::Write); }
        read_all(&mut s, limit)
    }
}

#[derive(Debug, Clone, PartialEq)]
pub enum Outcome { Closed, Reset(String), TimedOut, ConnectFailed(String), WriteFailed(String) }

#[derive(Debug, Clone)]
pub struct Exchange { pub bytes: Vec<u8>, pub outcome: Outcome }

pub fn read_all(s: &mut TcpStream, limit: Duration) -> Exchange {
    let mut bytes = vec![];
    let deadline = Instant::now() + limit;
    let mut buf = [0u8; 65536];
    loop {
        let left = deadline.saturating_duration_since(Instant::now());
        if left.is_zero() { return Exchange { bytes, outcome: Outcome::TimedOut }; }
        s.set_read_timeout(Some(left.max(Duration::from_millis(1)))).ok();
        match s.read(&mut buf) {
            Ok(0) => return Exchange { bytes, outcome: Outcome::Closed },
            Ok(n) => bytes.extend_from_slice(&buf[..n]),
            Err(e) if e.kind() == std::io::ErrorKind::WouldBlock || e.kind() == std::io::ErrorKind::TimedOut => return Exchange { bytes, outcome: Outcome::TimedOut },
            Err(e) if e.kind() == std::io::ErrorKind::Interrupted => continue,
            Err(e) => return Exchange { bytes, outcome: Outcome::Reset(e.to_string()) },
        }
    }
}

/// Close with RST instead of FIN (SO_LINGER with zero timeout).
pub fn reset(s: TcpStream) {
    let l = libc::linger { l_onoff: 1, l_linger: 0 };
    unsafe { libc::setsockopt(s.as_raw_fd(), libc::SOL_SOCKET, libc::SO_LINGER, &l as *const _ as *const libc::c_void, std::mem::size_of::<libc::linger>() as libc::socklen_t); }
    drop(s);
}
