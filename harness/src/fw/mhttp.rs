//! M-HTTP: the harness's own strict HTTP/1.1 response parser and well-formedness rules.
#![allow(dead_code)]
use super::util::{escape_bytes, find_sub, lossy};

#[derive(Clone, Debug)]
pub struct Resp {
    pub status: u16,
    pub reason: String,
    pub headers: Vec<(String, String)>,
    pub body: Vec<u8>,
    pub head_len: usize,
}

#[derive(Clone, Debug)]
pub struct Problem { pub sig: String, pub detail: String }

fn p(sig: &str, detail: String) -> Problem { Problem { sig: sig.to_string(), detail } }

/// Reason phrases of the codes rws registers (the harness's own table, transcribed from RFC 9110 / IANA as rws spells them).
pub fn reason_for(code: u16) -> Option<&'static str> {
    Some(match code {
        100 => "Continue", 101 => "Switching Protocols", 102 => "Processing", 103 => "Early Hints",
        200 => "OK", 201 => "Created", 202 => "Accepted", 203 => "Non Authoritative Information", 204 => "No Content", 205 => "Reset Content",
        206 => "Partial Content", 207 => "Multi-Status", 208 => "Already Reported", 226 => "IM Used",
        300 => "Multiple Choices", 301 => "Moved Permanently", 302 => "Found", 303 => "See Other", 304 => "Not Modified", 307 => "Temporary Redirect", 308 => "Permanent Redirect",
        400 => "Bad Request", 401 => "Unauthorized", 402 => "Payment Required", 403 => "Forbidden", 404 => "Not Found", 405 => "Method Not Allowed", 406 => "Not Acceptable",
        407 => "Proxy Authentication Required", 408 => "Request Timeout", 409 => "Conflict", 410 => "Gone", 411 => "Length Required", 412 => "Precondition Failed",
        413 => "Payload Too Large", 414 => "URI Too Long", 415 => "Unsupported Media Type", 416 => "Range Not Satisfiable", 417 => "Expectation Failed", 418 => "I'm A Teapot",
        421 => "Misdirected Request", 422 => "Unprocessable Entity", 423 => "Locked", 424 => "Failed Dependency", 425 => "Too Early", 426 => "Upgrade Required",
        428 => "Precondition Required", 429 => "Too Many Requests", 431 => "Request Header Fields Too Large", 451 => "Unavailable For Legal Reasons",
        500 => "Internal Server Error", 501 => "Not Implemented", 502 => "Bad Gateway", 503 => "Service Unavailable", 504 => "Gateway Timeout", 505 => "HTTP Version Not Supported",
        506 => "Variant Also Negotiates", 507 => "Insufficient Storage", 508 => "Loop Detected", 510 => "Not Extended", 511 => "Network Authentication Required",
        _ => return None,
    })
}

pub fn is_token(s: &str) -> bool {
    !s.is_empty() && s.bytes().all(|b| b.is_ascii_alphanumeric() || b"!#$%&'*+-.^_`|~".contains(&b))
}

/// Parse strictly. Err = the bytes are not one HTTP response at all.
pub fn parse(bytes: &[u8]) -> Result<Resp, Problem> {
    if bytes.is_empty() { return Err(p("no-response-bytes", "nothing was written to the transport".into())); }
    let head_end = match find_sub(bytes, b"\r\n\r\n") {
        Some(i) => i,
        None => return Err(p("response-head-unterminated", format!("no CRLFCRLF in {} bytes: {}", bytes.len(), lossy(bytes, 120)))),
    };
    let head = &bytes[..head_end];
    let body = bytes[head_end + 4..].to_vec();
    let mut lines: Vec<&[u8]> = vec![];
    let mut start = 0;
    let mut i = 0;
    while i + 1 < head.len() {
        if head[i] == b'\r' && head[i + 1] == b'\n' { lines.push(&head[start..i]); start = i + 2; i += 2; } else { i += 1; }
    }
    lines.push(&head[start..]);
    let status_line = lines[0];
    let sl = match std::str::from_utf8(status_line) { Ok(s) => s, Err(_) => return Err(p("status-line-not-utf8", lossy(status_line, 80))) };
    if sl.contains('\r') || sl.contains('\n') { return Err(p("status-line-bare-cr-or-lf", escape_bytes(status_line))); }
    let mut it = sl.splitn(3, ' ');
    let version = it.next().unwrap_or("");
    let code = it.next().unwrap_or("");
    let reason = it.next();
    // HTTP-version = "HTTP/" DIGIT "." DIGIT, case-sensitive (RFC 7230 2.6). The statement asks for a well-formed status line, not for one
    // particular version: a server that answers an HTTP/1.0 client in HTTP/1.0 is within it, one that echoes "http/1.1" is not
    let vb = version.as_bytes();
    if !(vb.len() == 8 && &vb[..5] == b"HTTP/" && vb[5].is_ascii_digit() && vb[6] == b'.' && vb[7].is_ascii_digit()) { return Err(p("status-line-version", format!("status line {:?}", sl))); }
    if code.len() != 3 || !code.bytes().all(|b| b.is_ascii_digit()) { return Err(p("status-line-code", format!("status line {:?}", sl))); }
    let reason = match reason { Some(r) => r.to_string(), None => return Err(p("status-line-no-reason", format!("status line {:?}", sl))) };
    let status: u16 = code.parse().unwrap();
    let mut headers = vec![];
    for l in &lines[1..] {
        let s = match std::str::from_utf8(l) { Ok(s) => s, Err(_) => return Err(p("header-line-not-utf8", lossy(l, 120))) };
        if s.contains('\r') || s.contains('\n') { return Err(p("header-line-bare-cr-or-lf", format!("header line {:?}", s))); }
        match s.find(':') {
            None => return Err(p("header-line-without-colon", format!("header line {:?}", s))),
            Some(c) => {
                let name = &s[..c];
                let value = s[c + 1..].trim_matches(|ch| ch == ' ' || ch == '\t');
                headers.push((name.to_string(), value.to_string()));
            }
        }
    }
    Ok(Resp { status, reason, headers, body, head_len: head_end + 4 })
}

impl Resp {
    pub fn get_all(&self, name: &str) -> Vec<&str> {
        self.headers.iter().filter(|(n, _)| n.eq_ignore_ascii_case(name)).map(|(_, v)| v.as_str()).collect()
    }
    pub fn get(&self, name: &str) -> Option<&str> { self.get_all(name).first().copied() }
    pub fn header_names(&self) -> Vec<String> { self.headers.iter().map(|(n, _)| n.clone()).collect() }
}

pub const FRAMING: [&str; 4] = ["Content-Length", "Content-Type", "Content-Range", "Transfer-Encoding"];

/// Names rws is known to emit. A header line with another name is a note; it is a violation of C05 only if the client supplied its text.
pub const SERVER_VOCABULARY: [&str; 22] = [
    "Access-Control-Allow-Origin", "Access-Control-Allow-Credentials", "Access-Control-Allow-Methods", "Access-Control-Allow-Headers",
    "Access-Control-Expose-Headers", "Access-Control-Max-Age", "Accept-CH", "Critical-CH", "Vary", "X-Content-Type-Options", "Accept-Ranges",
    "X-Frame-Options", "Date-Unix-Epoch-Nanos", "Cache-Control", "Last-Modified-Unix-Epoch-Nanos", "Content-Type", "Content-Range", "Content-Length",
    "Content-Disposition", "Location", "Allow", "Server",
];

/// Well-formedness and self-consistency rules of C05 (given the request method, if it could be determined).
/// `no_body_by_method`: request method was HEAD or OPTIONS.
pub fn wellformed(r: &Resp, no_body_by_method: bool) -> (Vec<Problem>, Vec<&'static str>) {
    let mut problems = vec![];
    let mut notes = vec![];
    match reason_for(r.status) {
        None => problems.push(p("unregistered-status-code", format!("status {}", r.status))),
        Some(want) => if r.reason != want { problems.push(p("reason-phrase-mismatch", format!("status {} has reason {:?}, registered phrase is {:?}", r.status, r.reason, want))); }
    }
    for (n, v) in &r.headers {
        if !is_token(n) { problems.push(p("header-name-not-a-token", format!("header name {:?}", n))); }
        // a name rws is not known to emit is no defect in itself (a new header may be added any day); C05 turns it into one only when the line's text
        // was supplied by the client (see c05::eval_response)
        if !SERVER_VOCABULARY.iter().any(|k| k.eq_ignore_ascii_case(n)) { notes.push("header-name-outside-known-vocabulary"); }
        if v.bytes().any(|b| b < 0x20 && b != b'\t' || b == 0x7f) { notes.push("control-character-in-header-value"); }
    }
    for f in FRAMING {
        let all = r.get_all(f);
        if all.len() > 1 { problems.push(p("framing-header-twice", format!("{} appears {} times: {:?}", f, all.len(), all))); }
    }
    let no_body_by_status = r.status / 100 == 1 || r.status == 204 || r.status == 304;
    if no_body_by_method || no_body_by_status {
        if !r.body.is_empty() {
            problems.push(p(if no_body_by_method { "body-on-head-or-options" } else { "body-on-bodiless-status" }, format!("{} body bytes on a response that carries no body (status {})", r.body.len(), r.status)));
        }
        if !no_body_by_method {
            if let Some(cl) = r.get("Content-Length") { if cl != "0" { notes.push("nonzero-content-length-on-bodiless-status"); } }
        }
    } else if let Some(cl) = r.get("Content-Length") {
        match cl.parse::<u64>() {
            Err(_) => problems.push(p("content-length-not-a-number", format!("Content-Length {:?}", cl))),
            Ok(n) => if n as usize != r.body.len() { problems.push(p("content-length-differs-from-body", format!("Content-Length {} but {} body bytes follow (status {})", n, r.body.len(), r.status))); }
        }
    }
    (problems, notes)
}

#[derive(Clone, Debug)]
pub struct Part { pub content_type: Option<String>, pub content_range: Option<String>, pub body: Vec<u8> }

/// Split a multipart/byteranges body by the boundary named in the Content-Type header value.
/// Tolerant of a missing final `--` and of one or two spaces after the colon of part headers.
pub fn split_byteranges(content_type: &str, body: &[u8]) -> Result<Vec<Part>, String> {
    let b = match content_type.split(';').filter_map(|x| x.trim().strip_prefix("boundary=")).next() { Some(b) => b.trim_matches('"').to_string(), None => return Err("no boundary parameter".into()) };
    let delim = format!("--{}", b).into_bytes();
    // positions of delimiter lines: at start of body or after CRLF
    let mut positions = vec![];
    let mut i = 0;
    while i + delim.len() <= body.len() {
        if &body[i..i + delim.len()] == &delim[..] && (i == 0 || (i >= 2 && &body[i - 2..i] == b"\r\n")) {
            let after = &body[i + delim.len()..];
            if after.is_empty() || after.starts_with(b"\r\n") || after.starts_with(b"--") { positions.push(i); i += delim.len(); continue; }
        }
        i += 1;
    }
    if positions.len() < 2 { return Err(format!("{} delimiter lines found", positions.len())); }
    let mut parts = vec![];
    for w in positions.windows(2) {
        let seg_start = w[0] + delim.len();
        let seg = &body[seg_start..w[1]];
        let seg = seg.strip_prefix(b"\r\n").ok_or("delimiter not followed by CRLF")?;
        // part ends with CRLF before next delimiter
        let seg = if seg.len() >= 2 && &seg[seg.len() - 2..] == b"\r\n" { &seg[..seg.len() - 2] } else { return Err("part not terminated by CRLF before the next delimiter".into()) };
        let he = find_sub(seg, b"\r\n\r\n").ok_or("part without blank line")?;
        let head = std::str::from_utf8(&seg[..he]).map_err(|_| "part head not utf8")?;
        let mut ct = None; let mut cr = None;
        for line in head.split("\r\n") {
            if let Some((n, v)) = line.split_once(':') {
                if n.eq_ignore_ascii_case("Content-Type") { ct = Some(v.trim().to_string()); }
                if n.eq_ignore_ascii_case("Content-Range") { cr = Some(v.trim().to_string()); }
            }
        }
        parts.push(Part { content_type: ct, content_range: cr, body: seg[he + 4..].to_vec() });
    }
    Ok(parts)
}

/// Parse `bytes s-e/size`.
pub fn parse_content_range(v: &str) -> Option<(u64, u64, u64)> {
    let rest = v.trim().strip_prefix("bytes ")?;
    let (r, size) = rest.split_once('/')?;
    let (s, e) = r.split_once('-')?;
    Some((s.trim().parse().ok()?, e.trim().parse().ok()?, size.trim().parse().ok()?))
}
