//! rwsv — property-based testing / fuzzing harness for rws (bohdaq/rust-web-server).
//! The rws sources are compiled into this crate by path (see build.rs), so `crate::server::Server` etc. are the real code.
#![allow(dead_code, unused_imports, unused_variables, unused_mut, unexpected_cfgs, unused_must_use, deprecated)]
#![allow(clippy::all)]
include!(concat!(env!("OUT_DIR"), "/mods.rs"));

pub mod fw;
pub mod props;

use fw::{Tier, Verdict};
use std::path::PathBuf;

fn arg_value(args: &[String], name: &str) -> Option<String> {
    args.iter().position(|a| a == name).and_then(|i| args.get(i + 1)).cloned()
}

fn main() {
    let args: Vec<String> = std::env::args().collect();
    if args.len() < 2 { eprintln!("usage: rwsv run <ID> [--tier quick|thorough] [--seed N] | replay <file> | list"); std::process::exit(3); }
    let tier = match arg_value(&args, "--tier").as_deref() { Some("thorough") => Tier::Thorough, _ => Tier::Quick };
    let seed: u64 = arg_value(&args, "--seed").or_else(|| std::env::var("VERIF_SEED").ok()).and_then(|s| s.trim().parse::<i128>().ok()).map(|v| v as u64).unwrap_or(1);
    match args[1].as_str() {
        "cold-burst" => {
            // rwsv cold-burst <docroot> <n> <escaped request> [<escaped request> ...]: a process that has not served anything yet handles n requests
            // on n named threads released by one barrier (request i = the (i mod k)-th given); prints one escaped response per line.
            let root = args.get(2).expect("docroot").clone();
            let n: usize = args.get(3).and_then(|s| s.parse().ok()).unwrap_or(2);
            let reqs: Vec<Vec<u8>> = args[4..].iter().map(|a| fw::util::unescape_bytes(a)).collect();
            fw::install_panic_hook();
            fw::inproc::init_env();
            std::env::set_current_dir(&root).expect("chdir");
            let saved = fw::redirect_stdio_to_devnull();
            let barrier = std::sync::Arc::new(std::sync::Barrier::new(n));
            let mut hs = vec![];
            for i in 0..n {
                let b = barrier.clone();
                let r = reqs[i % reqs.len().max(1)].clone();
                hs.push(std::thread::Builder::new().name(format!("{}", i)).spawn(move || { b.wait(); fw::inproc::serve(&r, Default::default(), 10000, fw::inproc::AppKind::Real, fw::inproc::Entry::Process).out }).unwrap());
            }
            let outs: Vec<Vec<u8>> = hs.into_iter().map(|h| h.join().unwrap_or_default()).collect();
            // and one more, alone, afterwards
            let after = fw::inproc::serve(&reqs[0], Default::default(), 10000, fw::inproc::AppKind::Real, fw::inproc::Entry::Process).out;
            use std::io::Write;
            let mut out = saved.unwrap();
            for o in outs.iter().chain(std::iter::once(&after)) { writeln!(out, "{}", fw::util::escape_bytes(o)).ok(); }
        }
        "probe" => {
            // rwsv probe <docroot> <escaped request bytes> [legacy]: run one request in-process and print the response
            let root = args.get(2).expect("docroot");
            let req = fw::util::unescape_bytes(args.get(3).expect("request"));
            let legacy = args.get(4).map(|s| s == "legacy").unwrap_or(false);
            fw::install_panic_hook();
            let h = std::thread::Builder::new().name("0".to_string()).spawn({ let root = root.clone(); move || {
                fw::inproc::init_env();
                std::env::set_current_dir(&root).expect("chdir");
                let saved = fw::redirect_stdio_to_devnull();
                let o = fw::inproc::serve(&req, Default::default(), 10000, fw::inproc::AppKind::Real, if legacy { fw::inproc::Entry::Legacy } else { fw::inproc::Entry::Process });
                use std::io::Write;
                let mut out = saved.unwrap();
                writeln!(out, "result: {:?}", o.result).ok();
                writeln!(out, "{}", fw::util::lossy(&o.out, 3000)).ok();
            }}).unwrap();
            h.join().ok();
        }
        "list" => { for p in props::ALL { println!("{}", p); } }
        "run" => {
            let id = args.get(2).expect("property id").to_string();
            let p = props::lookup(&id).unwrap_or_else(|| { eprintln!("unknown property {}", id); std::process::exit(3) });
            let mut spec = (p.spec)(tier);
            spec.property = id; spec.tier = tier; spec.seed = seed;
            if let Some(w) = arg_value(&args, "--workers").and_then(|s| s.parse().ok()) { spec.workers = w; }
            let code = fw::run_parent(spec, true);
            std::process::exit(code);
        }
        "child" => {
            let id = args.get(2).expect("property id").to_string();
            let p = props::lookup(&id).expect("property");
            let worker: u32 = arg_value(&args, "--worker").unwrap().parse().unwrap();
            let workers: u32 = arg_value(&args, "--workers").unwrap().parse().unwrap();
            let dir = PathBuf::from(arg_value(&args, "--dir").unwrap());
            fw::install_panic_hook();
            let case_limit: u64 = arg_value(&args, "--case-limit").and_then(|s| s.parse().ok()).unwrap_or(120);
            fw::start_case_watchdog(dir.clone(), worker, case_limit);
            let ctx = fw::make_child_ctx(&id, tier, seed, worker, workers, &dir, false);
            // code under test needs a named thread with the default 2 MiB stack (what the server's workers get)
            let h = std::thread::Builder::new().name("0".to_string()).stack_size(2 * 1024 * 1024).spawn(move || {
                (p.run)(&ctx);
                ctx.finish();
            }).unwrap();
            let ok = h.join().is_ok();
            std::process::exit(if ok { 0 } else { 4 });
        }
        "replay" => {
            let file = PathBuf::from(args.get(2).expect("file"));
            let exe = std::env::current_exe().unwrap();
            let dir = fw::scratch_base().join(format!("rwsv-replay-{}", std::process::id()));
            std::fs::create_dir_all(&dir).unwrap();
            let strict = args.iter().any(|a| a == "--strict");
            let (code, out) = fw::replay_in_child(&exe, &file, &dir, strict);
            let _ = std::fs::remove_dir_all(&dir);
            let v: serde_json::Value = std::fs::read(&file).ok().and_then(|b| serde_json::from_slice(&b).ok()).unwrap_or(serde_json::Value::Null);
            let prop = v.get("property").and_then(|s| s.as_str()).unwrap_or("?").to_string();
            print!("{}", out);
            if code == 1 {
                let sig = out.lines().find_map(|l| l.strip_prefix("REPLAY-FAIL sig=")).and_then(|s| s.split_whitespace().next()).unwrap_or("").to_string();
                let known = fw::KnownFindings::load();
                if !strict && known.is_known(&prop, &sig) {
                    println!("KNOWN-FINDING: property={} {} count=1", prop, sig);
                    std::process::exit(0);
                }
                println!("VIOLATION property={} replay={}", prop, file.display());
                std::process::exit(1);
            }
            std::process::exit(if code == 0 { 0 } else { 2 });
        }
        "replay-child" => {
            let file = PathBuf::from(args.get(2).expect("file"));
            let dir = PathBuf::from(arg_value(&args, "--dir").unwrap());
            let strict = args.iter().any(|a| a == "--strict");
            let v: fw::Violation = serde_json::from_slice(&std::fs::read(&file).expect("read replay")).expect("parse replay");
            let p = props::lookup(&v.property).expect("property");
            fw::install_panic_hook();
            let ctx = fw::make_child_ctx(&v.property, Tier::Quick, seed, 0, 1, &dir, strict);
            let saved = fw::redirect_stdio_to(&dir.join("replay-child.log"));
            *ctx.real_stdout.borrow_mut() = saved;
            let h = std::thread::Builder::new().name("0".to_string()).stack_size(2 * 1024 * 1024).spawn(move || {
                ctx.set_section(&v.section);
                let verdict = (p.replay)(&ctx, &v.section, &v.case);
                match verdict {
                    Verdict::Fail { sig, detail } => { ctx.say(&format!("REPLAY-FAIL sig={} {}", sig, detail.replace('\n', " "))); 1 }
                    Verdict::Discard => { ctx.say("REPLAY-DISCARD case is outside the domain"); 0 }
                    Verdict::Pass { .. } => { ctx.say("REPLAY-PASS"); 0 }
                }
            }).unwrap();
            let code = h.join().unwrap_or(4);
            std::process::exit(code);
        }
        other => { eprintln!("unknown command {}", other); std::process::exit(3); }
    }
}
