//! C01 — requests cannot read files outside the served directory.
use crate::fw::inproc::{self, AppKind, Entry};
use crate::fw::mock::Transport;
use crate::fw::tree::{tree_strategy, Tree, TreeSpec};
use crate::fw::util::pick_idx;
use crate::fw::{mhttp, Ctx, RunSpec, Tier, Verdict};
use proptest::prelude::*;
use serde::{Deserialize, Serialize};
use serde_json::Value;
use std::collections::HashSet;

pub fn spec(tier: Tier) -> RunSpec {
    super::base_spec(
        8,
        "generated document trees (G-TREE: 1-5 ancestor levels, nested directories, symlinks inside and to owner-designated outside targets; uniquely marked secrets planted at every ancestor level \
as plain file, index.html and page-k.html, in sibling directories whose names extend the root's name, and next to an owner-linked outside directory; sibling files named root + '.bak' / '-private.txt' / '.html') x targets from a grammar (6 % written without the leading slash, among them what a sibling's name has after the root's name) \
(prefix in {'', '/', '//', '@h', 'h:80', 'http://h', 'http://h:80'} + segments from {'..', '.', '', tree directory paths, tree names, secret names, ancestor names, %2e%2e, %2E%2E, .%2e, %2e., ..%2f, ..., ..;, ..\\\\} \
+ optional trailing slash + optional ?q / #f), biased so that half of the targets climb exactly to a level and end on a secret planted there, a share of the targets spell the absolute filesystem path of a secret behind zero or more empty / dot segments and every prefix ('/<abs>', '//<abs>', '/.//<abs>', 'http://h/<abs>'), separators between segments may be spelt %2F / %2f / %5C / backslash / %252F, x optional Range header x both entry points. \
Oracle: (a) the response contains no 12-byte window of any secret's content; (b) origin-form targets whose running depth goes below zero are answered with status >= 400. \
 A quarter of the production-entry targets of every tree are sent to the real release binary (started with the tree's root as working directory) over loopback instead of Server::process on the mock transport (class production-entry-real-binary); the oracle is the same. Non-trivial = target contains '..' (raw or encoded) or is not origin-form; distinct by (tree, target, range, entry point).",
        &["secrets consist only of their unique marker text, so a 12-byte window of a secret occurring in a response is a disclosure (coincidence probability ~1e-14 per window pair)",
          "Range slices shorter than 12 bytes of a secret would escape (a); generated ranges are at least 12 bytes long or open-ended",
          "the in-process route calls the real Server::process / Server::process_request with cwd = served root"],
        if tier == Tier::Quick { 900 } else { 14400 },
    )
}

#[derive(Clone, Debug, Serialize, Deserialize, PartialEq, Eq, Hash)]
pub enum Seg {
    Up(u8),        // '..' spelling selected by the number
    Dot, Empty,
    DirPath(u16),  // full url of a tree directory (several segments)
    Name(u16),     // one entry name of the tree
    FilePath(u16),
    Secret(u16),   // name of a planted secret (any level)
    Ancestor(u16), // name of an ancestor directory or of the root directory
    Lit(String),
}

#[derive(Clone, Debug, Serialize, Deserialize, PartialEq, Eq, Hash)]
pub struct Target { pub prefix: u8, pub segs: Vec<Seg>, pub trailing_slash: bool, pub suffix: u8, pub range: Option<String>, pub legacy: bool,
    /// bit i set: the i-th separator between segments is spelt as an encoded separator (ENC_SEPS[enc_kind]) instead of '/'
    #[serde(default)] pub enc_sep: u16, #[serde(default)] pub enc_kind: u8,
    /// sent to the real binary over loopback (production entry only) instead of Server::process on the mock transport
    #[serde(default)] pub binary: bool,
    /// the target is written without prefix and without the leading slash: whatever it starts with follows the served directory's name directly
    /// if a lookup glues the two together
    #[serde(default)] pub glued: bool }
pub const ENC_SEPS: [&str; 6] = ["%2F", "%2f", "%5C", "\\", "%2F", "%252F"];

#[derive(Clone, Debug, Serialize, Deserialize)]
pub struct Case { pub tree: TreeSpec, pub target: Target }

pub const UPS: [&str; 14] = ["..", "..", "..", "..", "%2e%2e", "%2E%2E", ".%2e", "%2e.", "..%2f", "..;", "..%2F", ".%2E", "%2E.", "..%5C"];
pub const PREFIXES: [&str; 16] = ["", "", "", "", "", "", "", "", "", "", "/", "//", "@h", "h:80", "http://h", "http://h:80"];
pub const SUFFIXES: [&str; 6] = ["", "", "", "?q=1", "#f", "?a=b#c"];

fn range_strategy() -> impl Strategy<Value = Option<String>> {
    prop_oneof![
        6 => Just(None),
        1 => Just(Some("bytes=0-".to_string())),
        1 => (0u32..40, 12u32..200).prop_map(|(a, n)| Some(format!("bytes={}-{}", a, a + n))),
        1 => (12u32..300).prop_map(|n| Some(format!("bytes=-{}", n))),
        1 => Just(Some("bytes=0-49,50-119".to_string())),
    ]
}

fn up_strategy() -> impl Strategy<Value = Seg> { prop_oneof![8 => Just(Seg::Up(0)), 2 => (0u8..14).prop_map(Seg::Up)] }

fn noise() -> impl Strategy<Value = Vec<Seg>> {
    proptest::collection::vec(prop_oneof![Just(Seg::Dot), Just(Seg::Empty)], 0..2)
}

/// Target strategy for a materialised tree: half of the targets climb exactly to an ancestor level and name a secret there.
fn target_strategy(levels: usize, has_outside_links: bool) -> impl Strategy<Value = Target> {
    // shape A: [dir path] + ups + secret
    let climb = (proptest::option::weighted(0.5, any::<u16>()), 0usize..=levels + 1, proptest::collection::vec(up_strategy(), 8), noise(), any::<u16>(), 0u8..8)
        .prop_map(|(start, extra, ups, noise, secret, tail)| {
            // the number of ups is fixed up when rendering (depends on the depth of the start directory): encode as Lit markers
            let mut segs = vec![];
            if let Some(d) = start { segs.push(Seg::DirPath(d)); }
            segs.push(Seg::Lit(format!("\u{1}CLIMB{}", extra)));
            for u in ups.into_iter().take(1) { segs.push(u); } // spelling of the ups
            segs.extend(noise);
            match tail {
                0 | 1 | 2 | 3 => segs.push(Seg::Lit(format!("\u{1}SECRETFILE{}", secret))),
                4 => segs.push(Seg::Lit("\u{1}SECRETPAGE".into())),
                5 => {} // the directory itself: index.html rule
                6 => segs.push(Seg::Lit("\u{1}SIBLING".into())),
                _ => segs.push(Seg::Lit("\u{1}BACKDOWN".into())),
            }
            segs
        });
    let through_link = (any::<u16>(), 0u8..3, up_strategy()).prop_map(|(l, tail, up)| {
        vec![Seg::Lit(format!("\u{1}OUTLINK{}", l)), up, match tail { 0 => Seg::Lit("beside.txt".into()), 1 => Seg::Lit("index.html".into()), _ => Seg::Empty }]
    });
    let seg = prop_oneof![
        4 => up_strategy(), 1 => Just(Seg::Dot), 1 => Just(Seg::Empty),
        2 => any::<u16>().prop_map(Seg::DirPath), 2 => any::<u16>().prop_map(Seg::Name), 1 => any::<u16>().prop_map(Seg::FilePath),
        3 => any::<u16>().prop_map(Seg::Secret), 2 => any::<u16>().prop_map(Seg::Ancestor),
        1 => prop::sample::select(vec!["...", "..\\", "%2e", "..%00", "%2e%2e%2f", "..%5c", "etc", "proc", "self", "cwd", "~", "%c0%ae%c0%ae", "....", "%252e%252e", "..%20", ".. ", "%2e%2e%5c", "..%255c", "..%c0%af", "%u002e%u002e", "..%09", "..;x=1", "..."]).prop_map(|s| Seg::Lit(s.to_string())),
    ];
    let random = proptest::collection::vec(seg, 1..=10);
    // shape C: the absolute path of a secret behind zero or more empty / dot segments ("/<abs>", "//<abs>", "/.//<abs>", "http://h/<abs>" ...):
    // joining it to the served directory must not replace the base
    let absolute = (proptest::collection::vec(prop_oneof![3 => Just(Seg::Empty), 1 => Just(Seg::Dot)], 0..3), any::<u16>()).prop_map(|(mut lead, k)| { lead.push(Seg::Lit(format!("\u{1}ABSSECRET{}", k))); lead });
    // shape D: a plain request for one of the tree's own symbolic links (shadow secrets wait where its text lands when resolved from the wrong directory)
    let link_file = any::<u16>().prop_map(|k| vec![Seg::Lit(format!("\u{1}LINKFILE{}", k))]);
    // shape E: what a sibling's name has after the root's name, then a secret inside that sibling ("-sibling/secret-s.txt", "x/index.html", ".bak"): sent without
    // the leading slash it reaches the sibling if a lookup appends the target to the served directory's name
    let glued_sibling = (0u8..10).prop_map(|k| vec![Seg::Lit(format!("\u{1}GLUED{}", k))]);
    let segs = if has_outside_links { prop_oneof![5 => climb, 2 => through_link, 3 => random, 2 => absolute, 1 => link_file, 1 => glued_sibling].boxed() } else { prop_oneof![6 => climb, 4 => random, 2 => absolute, 1 => link_file, 1 => glued_sibling].boxed() };
    let enc = prop_oneof![7 => Just(0u16), 2 => any::<u16>(), 1 => Just(u16::MAX)];
    (0u8..16, segs, proptest::bool::weighted(0.2), 0u8..6, range_strategy(), proptest::bool::weighted(0.3), enc, 0u8..6, proptest::bool::weighted(0.25), proptest::bool::weighted(0.06))
        .prop_map(|(prefix, segs, trailing_slash, suffix, range, legacy, enc_sep, enc_kind, binary, glued)| {
            let is_glued_shape = segs.iter().any(|s| matches!(s, Seg::Lit(l) if l.starts_with("\u{1}GLUED")));
            Target { prefix, segs, trailing_slash, suffix, range, legacy, enc_sep: if is_glued_shape { 0 } else { enc_sep }, enc_kind, binary: binary && !legacy, glued: glued || is_glued_shape } })
}

/// Render the target text against a materialised tree.
pub fn render(tree: &Tree, t: &Target) -> String {
    let mut parts: Vec<String> = vec![];
    let mut up_spelling = "..".to_string();
    let mut climb: Option<usize> = None;
    let mut start_depth = 0usize;
    let nlev = tree.ancestor_names.len();
    // first pass: find spelling of ups for climb shapes
    let is_climb = t.segs.iter().any(|s| matches!(s, Seg::Lit(l) if l.starts_with("\u{1}CLIMB")));
    let mut climbed_levels = 0usize;
    for (i, s) in t.segs.iter().enumerate() {
        match s {
            Seg::Up(k) => {
                let sp = UPS[*k as usize % UPS.len()].to_string();
                if let Some(total) = climb.take() {
                    // the climb shape: this Up gives the spelling of all its ups
                    for _ in 0..total { parts.push(sp.clone()); }
                    continue;
                }
                parts.push(sp);
            }
            Seg::Dot => parts.push(".".into()),
            Seg::Empty => parts.push("".into()),
            Seg::DirPath(i) => {
                let dirs: Vec<&crate::fw::tree::TDir> = tree.dirs.iter().filter(|d| d.url != "/").collect();
                if !dirs.is_empty() {
                    let d = dirs[pick_idx(*i, dirs.len())];
                    let segs: Vec<&str> = d.url.trim_start_matches('/').split('/').collect();
                    start_depth = segs.len();
                    for s in segs { parts.push(s.to_string()); }
                }
            }
            Seg::FilePath(i) => { if !tree.files.is_empty() { let f = &tree.files[pick_idx(*i, tree.files.len())]; for s in f.url.trim_start_matches('/').split('/') { parts.push(s.to_string()); } } }
            Seg::Name(i) => {
                let names: Vec<&String> = tree.dirs.iter().flat_map(|d| d.names.iter()).collect();
                if !names.is_empty() { parts.push(names[pick_idx(*i, names.len())].clone()); }
            }
            Seg::Secret(i) => { let s = &tree.secrets[pick_idx(*i, tree.secrets.len())]; parts.push(s.name.clone()); }
            Seg::Ancestor(i) => {
                let mut pool: Vec<String> = tree.ancestor_names.clone(); pool.push(tree.spec.root_name.clone()); pool.push("linked-area".into()); pool.push(format!("{}-sibling", tree.spec.root_name));
                parts.push(pool[pick_idx(*i, pool.len())].clone());
            }
            Seg::Lit(l) => {
                if let Some(rest) = l.strip_prefix("\u{1}CLIMB") {
                    let extra: usize = rest.parse().unwrap_or(1);
                    let k = extra.clamp(1, nlev.max(1));
                    climbed_levels = k;
                    climb = Some(start_depth + k);
                } else if let Some(rest) = l.strip_prefix("\u{1}SECRETFILE") {
                    let _ = rest;
                    parts.push(format!("secret-{}.txt", climbed_levels.max(1)));
                } else if l == "\u{1}SECRETPAGE" {
                    parts.push(format!("page-{}", climbed_levels.max(1)));
                } else if l == "\u{1}SIBLING" {
                    // only meaningful one level up; spelled relative to wherever we are
                    parts.push(format!("{}-sibling", tree.spec.root_name)); parts.push("secret-s.txt".into());
                } else if l == "\u{1}BACKDOWN" {
                    // re-descend into the root and name a real file
                    if climbed_levels >= 1 {
                        for a in tree.ancestor_names.iter().take(climbed_levels - 1).rev() { parts.push(a.clone()); }
                        parts.push(tree.spec.root_name.clone());
                        if let Some(f) = tree.files.first() { for s in f.url.trim_start_matches('/').split('/') { parts.push(s.to_string()); } }
                    }
                } else if let Some(rest) = l.strip_prefix("\u{1}ABSSECRET") {
                    // the absolute filesystem path of a secret, component by component (after whatever prefix and leading segments the target has)
                    let i: u16 = rest.parse().unwrap_or(0);
                    let sct = &tree.secrets[pick_idx(i, tree.secrets.len())];
                    for c in sct.abs.to_string_lossy().split('/').filter(|c| !c.is_empty()) { parts.push(c.to_string()); }
                } else if let Some(rest) = l.strip_prefix("\u{1}GLUED") {
                    let k: usize = rest.parse().unwrap_or(0);
                    let shapes: [(&str, &str); 10] = [("-sibling", "secret-s.txt"), ("-sibling", "index.html"), ("-sibling", ""), ("x", "secret-s.txt"), ("x", "index.html"), ("x", ""), (".bak", ""), ("-private.txt", ""), (".html", ""), ("-sibling", "index")];
                    let (a, b) = shapes[k % shapes.len()];
                    parts.push(a.to_string()); if !b.is_empty() { parts.push(b.to_string()); }
                } else if let Some(rest) = l.strip_prefix("\u{1}LINKFILE") {
                    // a plain request for a symbolic link inside the tree (to a file inside the root): whatever it resolves to must not be a secret
                    let i: u16 = rest.parse().unwrap_or(0);
                    let links: Vec<&crate::fw::tree::TFile> = tree.files.iter().filter(|f| f.kind == "link-to-file").collect();
                    let pool: Vec<&crate::fw::tree::TFile> = if links.is_empty() { tree.files.iter().collect() } else { links };
                    if !pool.is_empty() { for c in pool[pick_idx(i, pool.len())].url.trim_start_matches('/').split('/') { parts.push(c.to_string()); } }
                } else if let Some(rest) = l.strip_prefix("\u{1}OUTLINK") {
                    let i: u16 = rest.parse().unwrap_or(0);
                    if !tree.outside_dir_links.is_empty() {
                        let (url, _) = &tree.outside_dir_links[pick_idx(i, tree.outside_dir_links.len())];
                        for s in url.trim_start_matches('/').split('/') { parts.push(s.to_string()); }
                    }
                } else { parts.push(l.clone()); }
            }
        }
    }
    if let Some(total) = climb { for _ in 0..total { parts.push(up_spelling.clone()); } }
    let mut s = String::new();
    if !t.glued { s.push_str(PREFIXES[t.prefix as usize % PREFIXES.len()]); s.push('/'); }
    for (i, part) in parts.iter().enumerate() {
        if i > 0 { if i <= 16 && (t.enc_sep >> (i - 1)) & 1 == 1 { s.push_str(ENC_SEPS[t.enc_kind as usize % ENC_SEPS.len()]); } else { s.push('/'); } }
        s.push_str(part);
    }
    if t.trailing_slash && !s.ends_with('/') { s.push('/'); }
    s.push_str(SUFFIXES[t.suffix as usize % SUFFIXES.len()]);
    // a target never contains whitespace (it would end the target in the request line)
    s.replace(' ', "%20")
}

/// running depth of an origin-form path, percent-decoding dots and slashes; true if it ever goes below zero
pub fn climbs_above(target: &str) -> bool {
    let path = target.split(|c| c == '?' || c == '#').next().unwrap_or("");
    let dec = path.replace("%2e", ".").replace("%2E", ".").replace("%2f", "/").replace("%2F", "/").replace("%5c", "/").replace("%5C", "/").replace('\\', "/");
    let mut depth: i64 = 0;
    for seg in dec.split('/') {
        match seg { "" | "." => {} ".." => { depth -= 1; if depth < 0 { return true; } } _ => depth += 1 }
    }
    false
}

pub struct Prepared { pub tree: Tree, pub windows: HashSet<[u8; 12]> }

pub fn prepare(spec: &TreeSpec) -> std::io::Result<Prepared> {
    let tree = Tree::materialise(spec, &crate::fw::scratch_base())?;
    let mut windows = HashSet::new();
    for s in &tree.secrets {
        let c = std::fs::read(&s.abs)?;
        for w in c.windows(12) { let mut a = [0u8; 12]; a.copy_from_slice(w); windows.insert(a); }
    }
    std::env::set_current_dir(&tree.root)?;
    Ok(Prepared { tree, windows })
}

pub fn discloses(windows: &HashSet<[u8; 12]>, out: &[u8]) -> bool {
    if out.len() < 12 { return false; }
    // cheap prefilter: secrets consist of "RWSV-SECRET-<hex>|" only
    for w in out.windows(12) {
        let c = w[0];
        if !(c.is_ascii_hexdigit() || c == b'R' || c == b'W' || c == b'S' || c == b'V' || c == b'-' || c == b'E' || c == b'C' || c == b'T' || c == b'|') { continue; }
        let mut a = [0u8; 12]; a.copy_from_slice(w);
        if windows.contains(&a) { return true; }
    }
    false
}

pub fn eval(ctx: &Ctx, p: &Prepared, t: &Target) -> Verdict {
    let target = render(&p.tree, t);
    let mut req = format!("GET {} HTTP/1.1\r\nHost: localhost\r\n", target);
    if let Some(r) = &t.range { req.push_str(&format!("Range: {}\r\n", r)); }
    req.push_str("\r\n");
    let entry = if t.legacy { Entry::Legacy } else { Entry::Process };
    let o = inproc::serve_routed(req.as_bytes(), t.binary, entry);
    let origin_form = target.starts_with('/') && !target.starts_with("//");
    let has_dotdot = target.contains("..") || target.to_lowercase().contains("%2e");
    let mut classes = vec![];
    if t.legacy { classes.push("legacy-entry"); } else if t.binary { classes.push("production-entry-real-binary"); } else { classes.push("production-entry"); }
    if t.range.is_some() { classes.push("with-range"); }
    if !origin_form { classes.push("non-origin-form"); }
    let climbs = origin_form && climbs_above(&target);
    if climbs { classes.push("climbs-above-root"); }
    let ends_on_secret = p.tree.secrets.iter().any(|s| { let last = s.name.rsplit('/').next().unwrap_or(""); target.split(|c| c == '?' || c == '#').next().unwrap_or("").trim_end_matches('/').ends_with(last.trim_end_matches(".html")) });
    if climbs && ends_on_secret { classes.push("climbs-and-names-a-secret"); }
    if t.segs.iter().any(|s| matches!(s, Seg::Lit(l) if l.starts_with("\u{1}ABSSECRET"))) { classes.push("absolute-path-of-a-secret"); }
    if t.segs.iter().any(|s| matches!(s, Seg::Lit(l) if l.starts_with("\u{1}LINKFILE"))) { classes.push("request-for-a-symbolic-link-of-the-tree"); }
    if target.contains("linked-area") || p.tree.outside_dir_links.iter().any(|(u, _)| target.contains(u.as_str())) { classes.push("through-owner-link"); }
    let mut problems = vec![];
    if discloses(&p.windows, &o.out) {
        let which = p.tree.secrets.iter().find(|s| crate::fw::util::contains_sub(&o.out, &s.marker.as_bytes()[..s.marker.len().min(30)])).map(|s| format!("{} ({} level(s) above the root, shape {})", s.abs.display(), s.up, s.shape)).unwrap_or_else(|| "a slice of a secret".into());
        let status = mhttp::parse(&o.out).map(|r| r.status).unwrap_or(0);
        let sig = if t.range.is_some() && !t.legacy { "secret-disclosed-with-range" } else if t.legacy { "secret-disclosed-legacy-entry" } else { "secret-disclosed" };
        problems.push((sig.to_string(), format!("GET {} {}-> status {} and bytes of {}", target, t.range.as_ref().map(|r| format!("[Range: {}] ", r)).unwrap_or_default(), status, which)));
    }
    match &o.result {
        Err((m, _)) => { classes.push("panicked-(reported-under-C04)"); let _ = m; }
        Ok(_) => {
            if climbs {
                match mhttp::parse(&o.out) {
                    Ok(r) => if r.status < 400 { problems.push(("climbing-target-not-answered-with-error-status".to_string(), format!("GET {} -> status {} (entry {:?})", target, r.status, entry))); },
                    Err(_) => { classes.push("unparseable-response-(reported-under-C04/C05)"); }
                }
            }
        }
    }
    if !*ctx.shrinking.borrow() {
        let cls = classes.iter().rev().find(|c| !c.ends_with("-entry")).copied().unwrap_or("plain");
        ctx.sample(cls, || serde_json::json!({"request_target": target, "range": t.range, "entry": format!("{:?}", entry), "status": mhttp::parse(&o.out).map(|r| r.status as i64).unwrap_or(-1), "levels_above_root": p.tree.ancestor_names.len()}));
    }
    ctx.judge(problems, has_dotdot || !origin_form || target.starts_with("//") || t.segs.iter().any(|s| matches!(s, Seg::Lit(l) if l.starts_with("\u{1}ABSSECRET"))), classes)
}

pub fn run(ctx: &Ctx) {
    crate::fw::inproc::init_env();
    *ctx.auto_sample.borrow_mut() = false;
    let trees = ctx.share(ctx.scale(32, 640));
    let per_tree = ctx.scale(1500, 4000);
    ctx.set_section("targets");
    let mut runner = ctx.runner("trees");
    let home = std::env::current_dir().ok();
    for i in 0..trees {
        let spec = ctx.gen(&mut runner, &tree_strategy(ctx.tier == Tier::Thorough));
        let p = match prepare(&spec) { Ok(p) => p, Err(e) => { ctx.inconclusive(&format!("tree materialisation failed: {}", e)); continue; } };
        if !p.tree.outside_dir_links.is_empty() { ctx.class("tree-with-owner-link-to-outside-dir"); }
        ctx.class(match p.tree.ancestor_names.len() { 0..=2 => "tree-levels-above<=2", _ => "tree-levels-above>=3" });
        if let Err(e) = inproc::binary_start(&p.tree.root) { ctx.inconclusive(&format!("real binary did not start: {}", e)); }
        let strat = (Just(spec.clone()), target_strategy(p.tree.ancestor_names.len(), !p.tree.outside_dir_links.is_empty())).prop_map(|(tree, target)| Case { tree, target });
        ctx.prop_salted("targets", &format!("#{}", i), per_tree, strat, |c| eval(ctx, &p, &c.target));
        inproc::binary_stop();
        for t in inproc::binary_trouble() { ctx.inconclusive(&format!("exchange with the real binary did not complete: {}", t)); }
        if let Some(h) = &home { let _ = std::env::set_current_dir(h); }
        if *ctx.failed.borrow() { break; }
    }
}

pub fn replay(ctx: &Ctx, _section: &str, case: &Value) -> Verdict {
    crate::fw::inproc::init_env();
    match serde_json::from_value::<Case>(case.clone()) {
        Ok(c) => match prepare(&c.tree) { Ok(p) => { if c.target.binary { if let Err(e) = inproc::binary_start(&p.tree.root) { return Verdict::fail("replay-binary-did-not-start", e); } } let v = eval(ctx, &p, &c.target); inproc::binary_stop(); v }, Err(e) => Verdict::fail("replay-tree-failed", e.to_string()) },
        Err(e) => Verdict::fail("replay-unreadable", e.to_string()),
    }
}
