//! C18 — Base64 conforms to RFC 4648 and round-trips.
use crate::core::base64::Base64;
use crate::fw::util::Bytes;
use crate::fw::{catch, hash64, Ctx, RunSpec, Tier, Verdict};
use proptest::prelude::*;
use serde::{Deserialize, Serialize};
use serde_json::{json, Value};

pub fn spec(tier: Tier) -> RunSpec {
    super::base_spec(
        16,
        "sections: exhaustive-len0-2 / exhaustive-len3 (thorough; every byte string of length 0..3, enumerated, distinct by construction), \
boundary-cube (every 3-byte group over a 48-value boundary set), random-groups (seeded 3-byte groups), random-strings (proptest, lengths covering every residue mod 3, \
quick ≤ 4 KiB, thorough up to 64 KiB±2; section encode-long: inputs of 4094 .. 70 000 bytes - lengths around the powers of two, every residue mod 3 - through the encoder alone, compared with the reference encoder), negatives (every single-character replacement class of valid text by a character outside [A-Za-z0-9+/=]). \
Oracle: harness's own table-driven RFC 4648 encoder (M-B64) for encode, decode(encode(x)) == x, negatives must be Err. \
Section low-entropy-strings: alphabets of one to three symbols (zero, 0xFF, a letter, a random byte), runs, repeated short blocks. Non-trivial = input length >= 1 (every group exercises the bit masks); distinct by input bytes (hash set for generated cases, by construction for enumerations).",
        &["M-B64, the harness's 20-line RFC 4648 encoder, is correct (checked against the RFC 4648 section 10 vectors at start-up)",
          "Base64::encode/decode are pure functions of their argument"],
        if tier == Tier::Quick { 600 } else { 7200 },
    )
}

const ALPHABET: &[u8; 64] = b"ABCDEFGHIJKLMNOPQRSTUVWXYZabcdefghijklmnopqrstuvwxyz0123456789+/";

/// M-B64: reference encoder, RFC 4648 section 4.
pub fn ref_encode(data: &[u8]) -> String {
    let mut out = String::with_capacity((data.len() + 2) / 3 * 4);
    for chunk in data.chunks(3) {
        let b0 = chunk[0] as u32;
        let b1 = *chunk.get(1).unwrap_or(&0) as u32;
        let b2 = *chunk.get(2).unwrap_or(&0) as u32;
        let n = (b0 << 16) | (b1 << 8) | b2;
        out.push(ALPHABET[((n >> 18) & 63) as usize] as char);
        out.push(ALPHABET[((n >> 12) & 63) as usize] as char);
        out.push(if chunk.len() > 1 { ALPHABET[((n >> 6) & 63) as usize] as char } else { '=' });
        out.push(if chunk.len() > 2 { ALPHABET[(n & 63) as usize] as char } else { '=' });
    }
    out
}

#[derive(Clone, Debug, Serialize, Deserialize)]
#[serde(tag = "kind")]
pub enum Case {
    #[serde(rename = "roundtrip")]
    RoundTrip { data: Bytes },
    #[serde(rename = "negative")]
    Negative { data: Bytes, pos: u16, ch: String },
    /// encoder only, against the reference encoder (the library's decoder is quadratic: long inputs are not decoded back in the quick tier)
    #[serde(rename = "encode")]
    Encode { data: Bytes },
}

pub fn check_encode(data: &[u8]) -> Verdict {
    let expected = ref_encode(data);
    match catch(|| Base64::encode(data)) {
        Err((msg, _)) => Verdict::fail(format!("panic:encode:{}", msg), format!("Base64::encode panicked on {} bytes", data.len())),
        Ok(Err(e)) => Verdict::fail("encode-returns-err", format!("Base64::encode returned Err({}) for {} bytes", e, data.len())),
        Ok(Ok(s)) => if s != expected {
            let at = s.bytes().zip(expected.bytes()).take_while(|(a, b)| a == b).count();
            Verdict::fail("encode-differs-from-rfc4648", format!("{} input bytes: encode gave {} characters, the RFC 4648 text has {}; first difference at character {}", data.len(), s.len(), expected.len(), at))
        } else { Verdict::passc(true, vec![if data.len() > 4096 { "encode-only-longer-than-4096" } else { "encode-only" }]) },
    }
}

pub fn check_roundtrip(data: &[u8]) -> Verdict {
    let expected = ref_encode(data);
    let enc = match catch(|| Base64::encode(data)) {
        Err((msg, _)) => return Verdict::fail(format!("panic:encode:{}", msg), format!("Base64::encode panicked on {} bytes", data.len())),
        Ok(Err(e)) => return Verdict::fail("encode-returns-err", format!("Base64::encode returned Err({}) for {} bytes", e, data.len())),
        Ok(Ok(s)) => s,
    };
    if enc != expected {
        return Verdict::fail("encode-differs-from-rfc4648", format!("encode gave {:?}, RFC 4648 text is {:?}", trunc(&enc), trunc(&expected)));
    }
    let dec = match catch(|| Base64::decode(enc.clone())) {
        Err((msg, _)) => return Verdict::fail(format!("panic:decode:{}", msg), "Base64::decode panicked on its own encoder's output".to_string()),
        Ok(Err(e)) => return Verdict::fail("decode-rejects-valid-text", format!("decode({:?}) returned Err({})", trunc(&enc), e)),
        Ok(Ok(v)) => v,
    };
    if dec != data {
        return Verdict::fail("decode-does-not-invert-encode", format!("decode(encode(x)) has {} bytes, x has {}", dec.len(), data.len()));
    }
    Verdict::passc(!data.is_empty(), vec![match data.len() % 3 { 0 => "len%3=0", 1 => "len%3=1", _ => "len%3=2" }])
}

fn trunc(s: &str) -> String { if s.len() > 80 { format!("{}…", &s.chars().take(80).collect::<String>()) } else { s.to_string() } }

pub fn check_negative(data: &[u8], pos: u16, ch: &str) -> Verdict {
    let valid = ref_encode(data);
    if valid.is_empty() { return Verdict::Discard; }
    let chars: Vec<char> = valid.chars().collect();
    let p = crate::fw::util::pick_idx(pos, chars.len());
    let c = match ch.chars().next() { Some(c) => c, None => return Verdict::Discard };
    if c.is_ascii_alphanumeric() || c == '+' || c == '/' || c == '=' { return Verdict::Discard; }
    let mut text = String::new();
    for (i, x) in chars.iter().enumerate() { if i == p { text.push(c) } else { text.push(*x) } }
    match catch(|| Base64::decode(text.clone())) {
        Err((msg, _)) => Verdict::fail(format!("panic:decode:{}", msg), format!("decode panicked on {:?}", trunc(&text))),
        Ok(Ok(v)) => Verdict::fail("decode-accepts-foreign-character", format!("decode({:?}) returned Ok({} bytes) although {:?} is outside the alphabet", trunc(&text), v.len(), c)),
        Ok(Err(_)) => Verdict::passc(true, vec![if c.is_ascii() { "neg-ascii" } else { "neg-nonascii" }]),
    }
}

pub fn eval(case: &Case) -> Verdict {
    match case {
        Case::RoundTrip { data } => check_roundtrip(&data.0),
        Case::Negative { data, pos, ch } => check_negative(&data.0, *pos, ch),
        Case::Encode { data } => check_encode(&data.0),
    }
}

const BOUNDARY: [u8; 48] = [
    0, 1, 2, 3, 4, 7, 8, 15, 16, 31, 32, 47, 48, 62, 63, 64, 65, 90, 91, 96, 97, 122, 123, 126, 127, 128, 129, 143, 144, 159, 160, 191, 192, 193,
    207, 208, 223, 224, 239, 240, 247, 248, 251, 252, 253, 254, 255, 85,
];

fn self_test() {
    // RFC 4648 section 10
    for (i, o) in [("", ""), ("f", "Zg=="), ("fo", "Zm8="), ("foo", "Zm9v"), ("foob", "Zm9vYg=="), ("fooba", "Zm9vYmE="), ("foobar", "Zm9vYmFy")] {
        assert_eq!(ref_encode(i.as_bytes()), o, "M-B64 self test");
    }
}

fn enumerate(ctx: &Ctx, section: &str, items: impl Iterator<Item = Vec<u8>>) {
    ctx.set_section(section);
    let mut n = 0u64;
    let mut nt = 0u64;
    for data in items {
        let v = check_roundtrip(&data);
        match &v {
            Verdict::Pass { nontrivial, .. } => {
                n += 1; if *nontrivial { nt += 1; }
                if n % 65536 == 1 { ctx.sample("enumerated", || json!({"kind":"roundtrip","data": Bytes(data.clone()), "text": ref_encode(&data)})); }
            }
            _ => {
                let d = data.clone();
                if ctx.count(&v, hash64(&data), || serde_json::to_value(Case::RoundTrip { data: Bytes(d) }).unwrap()) { break; }
            }
        }
    }
    ctx.add_by_construction(n, nt);
}

pub fn run(ctx: &Ctx) {
    self_test();
    let w = ctx.worker as usize;
    let ws = ctx.workers as usize;

    // exhaustive: lengths 0..2 — partitioned by first byte
    {
        let mut items: Vec<Vec<u8>> = vec![];
        if w == 0 { items.push(vec![]); }
        for a in (0..256usize).filter(|a| a % ws == w) {
            items.push(vec![a as u8]);
            for b in 0..256usize { items.push(vec![a as u8, b as u8]); }
        }
        enumerate(ctx, "exhaustive-len0-2", items.into_iter());
        ctx.mark_exhaustive("exhaustive-len0-2");
    }
    if ctx.tier == Tier::Thorough {
        let firsts: Vec<u8> = (0..256usize).filter(|a| a % ws == w).map(|a| a as u8).collect();
        let it = firsts.into_iter().flat_map(|a| (0..=255u8).flat_map(move |b| (0..=255u8).map(move |c| vec![a, b, c])));
        enumerate(ctx, "exhaustive-len3", it);
        ctx.mark_exhaustive("exhaustive-len3");
    } else {
        let firsts: Vec<u8> = BOUNDARY.iter().copied().enumerate().filter(|(i, _)| i % ws == w).map(|(_, a)| a).collect();
        let it = firsts.into_iter().flat_map(|a| BOUNDARY.iter().flat_map(move |&b| BOUNDARY.iter().map(move |&c| vec![a, b, c])));
        enumerate(ctx, "boundary-cube", it);
        // seeded random groups
        ctx.prop("random-groups", ctx.share(ctx.scale(400_000, 0)), any::<[u8; 3]>().prop_map(|g| Case::RoundTrip { data: Bytes(g.to_vec()) }), eval);
    }

    // random strings over every residue
    let max_len = if ctx.quick() { 4096usize } else { 65536 };
    let strat = (0usize..=max_len, any::<u64>()).prop_flat_map(|(len, _)| {
        // bias towards short strings, still covering long ones
        prop_oneof![
            4 => proptest::collection::vec(any::<u8>(), 0..=(len % 64)),
            2 => proptest::collection::vec(any::<u8>(), 0..=(len % 600)),
            1 => proptest::collection::vec(any::<u8>(), len..=len),
        ]
    }).prop_map(|v| Case::RoundTrip { data: Bytes(v) });
    ctx.prop("random-strings", ctx.share(ctx.scale(12_000, 200_000)), strat, eval);

    // low-entropy strings: bytes from an alphabet of one to three symbols (zero, 0xFF, one letter, one random byte), and a short block repeated - equal and
    // zero-led groups at different positions, runs longer than a group, a tail that repeats the start of an earlier group
    let symbol = prop_oneof![3 => Just(0u8), 1 => Just(0xffu8), 1 => Just(b'A'), 2 => any::<u8>()];
    let low = prop_oneof![
        3 => (proptest::collection::vec(symbol.clone(), 1..=3), proptest::collection::vec(any::<u8>(), 0..200)).prop_map(|(alpha, picks)| picks.iter().map(|p| alpha[*p as usize % alpha.len()]).collect::<Vec<u8>>()),
        2 => (symbol.clone(), 0usize..700).prop_map(|(b, n)| vec![b; n]),
        2 => (proptest::collection::vec(symbol, 1..=4), 0usize..120, 0usize..4).prop_map(|(block, times, cut)| { let mut v: Vec<u8> = vec![]; for _ in 0..times { v.extend_from_slice(&block); } let keep = v.len().saturating_sub(cut); v.truncate(keep); v }),
    ].prop_map(|v| Case::RoundTrip { data: Bytes(v) });
    ctx.prop("low-entropy-strings", ctx.share(ctx.scale(12_000, 200_000)), low, eval);

    // long inputs through the encoder alone: lengths around the powers of two up to 64 KiB (every residue mod 3) and random lengths up to 70 000
    let long_len = prop_oneof![
        3 => (prop::sample::select(vec![4096usize, 8192, 12288, 16384, 32768, 49152, 65536]), 0usize..5).prop_map(|(p, d)| p + d - 2),
        2 => 4097usize..70_000,
    ];
    let long = long_len.prop_flat_map(|n| proptest::collection::vec(any::<u8>(), n..=n)).prop_map(|v| Case::Encode { data: Bytes(v) });
    ctx.prop("encode-long", ctx.share(ctx.scale(800, 40_000)), long, eval);

    if ctx.tier == Tier::Thorough {
        // a few long strings at 64 KiB ± {0,1,2} (decoder is quadratic)
        ctx.set_section("long-strings");
        let mut runner = ctx.runner("long");
        for k in 0..3usize {
            if (k % ws) != w % 3 || w >= 3 { continue; }
            let len = 65536 - 1 + k;
            let data: Vec<u8> = ctx.gen(&mut runner, &proptest::collection::vec(any::<u8>(), len..=len));
            let v = check_roundtrip(&data);
            let d = data.clone();
            ctx.count(&v, hash64(&data), || json!({"kind":"roundtrip","data": Bytes(d)}));
        }
    }

    // decoder negatives
    let foreign = prop_oneof![
        6 => prop::sample::select(vec!["-", "_", " ", "\n", "\r", "\t", "!", "\"", "#", "$", "%", "&", "'", "(", ")", "*", ",", ".", ":", ";", "<", ">", "?", "@", "[", "\\", "]", "^", "`", "{", "|", "}", "~", "\u{0}", "\u{7f}"]).prop_map(|s| s.to_string()),
        2 => prop::sample::select(vec!["Ã", "©", "ÿ", "\u{80}", "\u{a0}", "Ł", "é", "ж", "中", "\u{141}", "\u{161}", "\u{17a}", "\u{12b}", "\u{13d}", "\u{2f}\u{301}", "Ａ", "\u{1d7d8}"]).prop_map(|s| s.chars().next().unwrap().to_string()),
        1 => any::<char>().prop_filter("outside alphabet", |c| !(c.is_ascii_alphanumeric() || *c == '+' || *c == '/' || *c == '=')).prop_map(|c| c.to_string()),
    ];
    let neg = (proptest::collection::vec(any::<u8>(), 1..=48), any::<u16>(), foreign).prop_map(|(d, pos, ch)| Case::Negative { data: Bytes(d), pos, ch });
    ctx.prop("negatives", ctx.share(ctx.scale(40_000, 1_000_000)), neg, eval);
}

pub fn replay(_ctx: &Ctx, _section: &str, case: &Value) -> Verdict {
    match serde_json::from_value::<Case>(case.clone()) {
        Ok(c) => eval(&c),
        Err(e) => Verdict::fail("replay-unreadable", e.to_string()),
    }
}
