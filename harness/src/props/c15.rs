//! C15 — responses written by the library can be read back by it.
use crate::fw::util::{find_sub, Bytes};
use crate::fw::{catch, mhttp, Ctx, RunSpec, Tier, Verdict};
use crate::header::Header;
use crate::range::{ContentRange, Range};
use crate::request::Request;
use crate::response::Response;
use proptest::prelude::*;
use serde::{Deserialize, Serialize};
use serde_json::Value;

pub fn spec(tier: Tier) -> RunSpec {
    super::base_spec(
        8,
        "sections: roundtrip (each of the 60 registered statuses x 4 versions x 0..20 headers with sane names (no framing names) x one part | 2..6 parts; part = content type, range start <= end <= size within i64, \
body of arbitrary bytes - empty, binary, ending in CR/LF, containing '--' - never containing the boundary token; both serialisers: Response::generate_response as the server uses it and the instance method Response::generate), \
corruptions (one field of a valid serialisation: unknown status code, reason != code, unknown version, opening delimiter removed, closing delimiter removed, start > end, end > size, non-numeric range field, a part header line deleted). \
Oracle: Response::parse(bytes) gives the same status and reason, the original headers as a prefix of the parsed ones, identical body bytes, for several parts the same content types / ranges / sizes / bodies in order, \
for one part the same content type and a Content-Range header naming the original range; both serialisers give the same bytes; must-reject corruptions give Err. \
Non-trivial = >= 2 parts, a body that is empty / non-UTF-8 / ends in CR or LF, or a corruption; distinct by case.",
        &["header names are tokens other than Content-Type/Content-Length/Content-Range, values printable without leading/trailing blanks", "part content types have no surrounding blanks (the parser trims)"],
        if tier == Tier::Quick { 600 } else { 7200 },
    )
}

#[derive(Clone, Debug, Serialize, Deserialize, PartialEq)]
pub struct PartSpec { pub content_type: String, pub start: u64, pub end: u64, pub size: u64, pub body: Bytes }

#[derive(Clone, Debug, Serialize, Deserialize)]
pub struct RespSpec { pub status_idx: u8, pub version: u8, pub headers: Vec<(String, String)>, pub parts: Vec<PartSpec> }

#[derive(Clone, Debug, Serialize, Deserialize)]
#[serde(tag = "kind")]
pub enum Case {
    #[serde(rename = "roundtrip")]
    RoundTrip { resp: RespSpec },
    #[serde(rename = "corruption")]
    Corruption { resp: RespSpec, what: u8, which: u16 },
}

pub const VERSIONS: [&str; 4] = ["HTTP/1.1", "HTTP/1.0", "HTTP/0.9", "HTTP/2.0"];
pub const BOUNDARY: &[u8] = b"String_separator";

fn body_strategy(max: usize) -> impl Strategy<Value = Bytes> {
    let tail = prop::sample::select(vec!["", "\r", "\n", "\r\n", "--", "\r\n--", "\r\n\r\n", "-"]);
    prop_oneof![
        2 => Just(Bytes(vec![])),
        5 => (proptest::collection::vec(any::<u8>(), 0..80), tail.clone()).prop_map(|(mut v, t)| { v.extend_from_slice(t.as_bytes()); Bytes(v) }),
        2 => ("[ -~]{0,60}", tail).prop_map(|(s, t)| Bytes(format!("{}{}", s, t).into_bytes())),
        1 => proptest::collection::vec(any::<u8>(), 0..max).prop_map(Bytes),
        1 => proptest::collection::vec(prop_oneof![Just(b'\r'), Just(b'\n'), Just(b'-'), any::<u8>()], 0..200).prop_map(Bytes),
    ].prop_filter("contains the boundary token", |b| find_sub(&b.0, BOUNDARY).is_none())
}

fn part_strategy(max: usize) -> impl Strategy<Value = PartSpec> {
    let ct = prop_oneof![4 => prop::sample::select(vec!["text/plain", "text/html", "application/octet-stream", "image/png", "application/json", "text/plain; charset=utf-8"]).prop_map(|s| s.to_string()), 1 => "[a-z]{1,8}/[a-z0-9.+-]{1,12}",
        // other members of the multipart family and near misses of the byte-range type: only multipart/byteranges means "several parts follow"
        1 => prop::sample::select(vec!["multipart/form-data; boundary=XB", "multipart/mixed; boundary=x", "multipart/related", "Multipart/Form-Data", "multipart/x-mixed-replace", "multipart/byterange", "application/multipart/byteranges", "text/plain; note=multipart/byteranges"]).prop_map(|s| s.to_string())];
    let range = prop_oneof![
        4 => (0u64..100_000, 0u64..100_000, 0u64..100_000).prop_map(|(a, b, c)| { let mut v = [a, b, c]; v.sort(); (v[0], v[1], v[2]) }),
        1 => Just((0u64, 0u64, 0u64)),
        1 => (0u64..10).prop_map(|a| (a, a, a)),
        1 => Just((0u64, i64::MAX as u64, i64::MAX as u64)),
        1 => (0u64..1000).prop_map(|a| (a, i64::MAX as u64 - 1, i64::MAX as u64)),
    ];
    (ct, range, body_strategy(max)).prop_map(|(content_type, (start, end, size), body)| PartSpec { content_type, start, end, size, body })
}

fn resp_strategy(max: usize) -> impl Strategy<Value = RespSpec> {
    let header = prop_oneof![
        3 => ("[A-Za-z][A-Za-z0-9-]{0,20}", "[!-~]([ -~]{0,40}[!-~])?"),
        // long values (lengths around 64 .. 8192) and values with multi-byte characters
        1 => ("[A-Za-z][A-Za-z0-9-]{0,20}", crate::fw::greq::long_text().prop_map(|b| String::from_utf8_lossy(&b.0).trim().to_string()).prop_filter("empty", |s| !s.is_empty())),
        1 => ("[A-Za-z][A-Za-z0-9-]{0,20}", prop::sample::select(vec!["é", "naïve café", "日本語", "a😀b", "ü: ö", "€ = 1"]).prop_map(|s| s.to_string())),
        1 => prop::sample::select(vec![("Vary", "Origin, Sec-CH-UA"), ("Cache-Control", "no-store, no-cache"), ("X-Frame-Options", "SAMEORIGIN"), ("Location", "/a/b?c=d: e"), ("Set-Cookie", "a=b; Path=/")]).prop_map(|(a, b)| (a.to_string(), b.to_string())),
    ].prop_filter("framing name", |(n, _)| !["content-type", "content-length", "content-range"].contains(&n.to_lowercase().as_str()));
    let parts = prop_oneof![5 => proptest::collection::vec(part_strategy(max), 1..=1), 4 => proptest::collection::vec(part_strategy(max), 2..=6)];
    (0u8..60, prop_oneof![8 => Just(0u8), 2 => 1u8..4], proptest::collection::vec(header, 0..20), parts).prop_map(|(status_idx, version, headers, parts)| RespSpec { status_idx, version, headers, parts })
}

fn build(r: &RespSpec) -> Response {
    let list = Response::status_code_reason_phrase_list();
    let st = list[r.status_idx as usize % list.len()];
    Response {
        http_version: VERSIONS[r.version as usize % 4].to_string(),
        status_code: *st.status_code,
        reason_phrase: st.reason_phrase.to_string(),
        headers: r.headers.iter().map(|(n, v)| Header { name: n.clone(), value: v.clone() }).collect(),
        content_range_list: r.parts.iter().map(|p| ContentRange { unit: "bytes".into(), range: Range { start: p.start, end: p.end }, size: p.size.to_string(), body: p.body.0.clone(), content_type: p.content_type.clone() }).collect(),
    }
}

fn get_request() -> Request { Request { method: "GET".into(), request_uri: "/".into(), http_version: "HTTP/1.1".into(), headers: vec![], body: vec![] } }

fn compare(r: &RespSpec, original: &Response, parsed: &Response, route: &str) -> Vec<(String, String)> {
    let mut p = vec![];
    if parsed.status_code != original.status_code || parsed.reason_phrase != original.reason_phrase { p.push(("roundtrip-status".into(), format!("[{}] {} {:?} != {} {:?}", route, parsed.status_code, parsed.reason_phrase, original.status_code, original.reason_phrase))); }
    if parsed.http_version != original.http_version { p.push(("roundtrip-version".into(), format!("[{}] {:?} != {:?}", route, parsed.http_version, original.http_version))); }
    if parsed.headers.len() < original.headers.len() || parsed.headers[..original.headers.len()] != original.headers[..] {
        let i = parsed.headers.iter().zip(original.headers.iter()).position(|(a, b)| a != b).unwrap_or(parsed.headers.len().min(original.headers.len()));
        p.push(("roundtrip-headers".into(), format!("[{}] header {}: parsed {:?}, written {:?}", route, i, parsed.headers.get(i), original.headers.get(i))));
    }
    if r.parts.len() == 1 {
        let w = &r.parts[0];
        if parsed.content_range_list.len() != 1 { p.push(("roundtrip-part-count".into(), format!("[{}] {} parts parsed, 1 written", route, parsed.content_range_list.len()))); return p; }
        let g = &parsed.content_range_list[0];
        if g.body != w.body.0 { p.push(("roundtrip-body".into(), format!("[{}] body {} bytes parsed, {} written", route, g.body.len(), w.body.0.len()))); }
        if g.content_type != w.content_type { p.push(("roundtrip-content-type".into(), format!("[{}] content type {:?} parsed, {:?} written", route, g.content_type, w.content_type))); }
        let want = format!("bytes {}-{}/{}", w.start, w.end, w.size);
        let cr: Vec<&Header> = parsed.headers.iter().filter(|h| h.name == "Content-Range").collect();
        if cr.len() != 1 || cr[0].value != want { p.push(("roundtrip-content-range".into(), format!("[{}] Content-Range header(s) {:?}, written range {}", route, cr, want))); }
    } else {
        if parsed.content_range_list.len() != r.parts.len() { p.push(("roundtrip-part-count".into(), format!("[{}] {} parts parsed, {} written", route, parsed.content_range_list.len(), r.parts.len()))); return p; }
        for (i, (g, w)) in parsed.content_range_list.iter().zip(r.parts.iter()).enumerate() {
            if g.body != w.body.0 { p.push(("roundtrip-part-body".into(), format!("[{}] part {}: {} != {}", route, i, crate::fw::util::lossy(&g.body, 40), crate::fw::util::lossy(&w.body.0, 40)))); break; }
            if g.content_type != w.content_type { p.push(("roundtrip-part-content-type".into(), format!("[{}] part {}: {:?} != {:?}", route, i, g.content_type, w.content_type))); break; }
            if g.range.start != w.start || g.range.end != w.end || g.size != w.size.to_string() { p.push(("roundtrip-part-range".into(), format!("[{}] part {}: {}-{}/{} != {}-{}/{}", route, i, g.range.start, g.range.end, g.size, w.start, w.end, w.size))); break; }
        }
    }
    p
}

fn classes_of(r: &RespSpec) -> (bool, Vec<&'static str>) {
    let mut c = vec![];
    if r.parts.len() >= 2 { c.push("multi-part"); } else { c.push("single-part"); }
    if r.parts.iter().any(|p| p.body.0.is_empty()) { c.push("empty-body"); }
    if r.parts.iter().any(|p| std::str::from_utf8(&p.body.0).is_err()) { c.push("non-utf8-body"); }
    if r.parts.iter().any(|p| p.body.0.ends_with(b"\r") || p.body.0.ends_with(b"\n")) { c.push("body-ends-in-cr-or-lf"); }
    let nt = c.iter().any(|x| *x != "single-part");
    (nt, c)
}

pub fn eval(ctx: &Ctx, case: &Case) -> Verdict {
    match case {
        Case::RoundTrip { resp } => {
            let original = build(resp);
            let (nt, classes) = classes_of(resp);
            let mut problems = vec![];
            let bytes = match catch(|| Response::generate_response(original.clone(), get_request())) { Ok(b) => b, Err((m, loc)) => return Verdict::fail(format!("panic:generate_response:{}", m), loc) };
            match catch(|| Response::parse(&bytes)) {
                Err((m, loc)) => problems.push((format!("panic:Response::parse:{}", m), format!("panic at {} on the library's own serialisation", loc))),
                Ok(Err(e)) => problems.push(("parse-rejects-own-serialisation".into(), format!("Err({:?}) for {}", e, crate::fw::util::lossy(&bytes, 300)))),
                Ok(Ok(parsed)) => problems.extend(compare(resp, &original, &parsed, "generate_response")),
            }
            // the instance serialiser
            let mut inst = original.clone();
            match catch(|| { let b = inst.generate(); (b, inst.clone()) }) {
                Err((m, loc)) => problems.push((format!("panic:Response::generate:{}", m), loc)),
                Ok((b2, after)) => {
                    if b2 != bytes {
                        // the one listed deviation: the instance serialiser leaves out the Content-Type line of a single part and pushes it onto the caller's value instead
                        let ct_line = if resp.parts.len() == 1 { format!("Content-Type: {}\r\n", resp.parts[0].content_type).into_bytes() } else { vec![] };
                        let without: Vec<u8> = match find_sub(&bytes, &ct_line) { Some(i) if !ct_line.is_empty() => { let mut v = bytes.clone(); v.drain(i..i + ct_line.len()); v } _ => bytes.clone() };
                        if !ct_line.is_empty() && b2 == without { problems.push(("instance-serialiser-drops-content-type".into(), format!("Response::generate leaves out {:?} and adds the header to the caller's value ({} -> {} headers)", String::from_utf8_lossy(&ct_line), original.headers.len(), after.headers.len()))); }
                        else { problems.push(("serialisers-disagree".into(), format!("generate_response: {} | generate: {}", crate::fw::util::lossy(&bytes, 200), crate::fw::util::lossy(&b2, 200)))); }
                    } else if after != original { problems.push(("instance-serialiser-mutates-its-value".into(), format!("{} -> {} headers", original.headers.len(), after.headers.len()))); }
                }
            }
            ctx.judge(problems, nt, classes)
        }
        Case::Corruption { resp, what, which } => {
            let original = build(resp);
            let bytes = match catch(|| Response::generate_response(original.clone(), get_request())) { Ok(b) => b, Err((m, loc)) => return Verdict::fail(format!("panic:generate_response:{}", m), loc) };
            let line_end = find_sub(&bytes, b"\r\n").unwrap_or(bytes.len());
            let multi = resp.parts.len() >= 2;
            let replace_first = |hay: &[u8], from: &[u8], to: &[u8]| -> Option<Vec<u8>> { find_sub(hay, from).map(|i| { let mut v = hay[..i].to_vec(); v.extend_from_slice(to); v.extend_from_slice(&hay[i + from.len()..]); v }) };
            let status_line = String::from_utf8_lossy(&bytes[..line_end]).to_string();
            let kind = if multi { what % 9 } else { what % 3 };
            let (corrupted, class, must_reject): (Option<Vec<u8>>, &'static str, bool) = match kind {
                0 => { let code = [99, 199, 209, 299, 309, 399, 419, 452, 499, 512, 599, 600, 999][*which as usize % 13]; (replace_first(&bytes, format!(" {} ", original.status_code).as_bytes(), format!(" {} ", code).as_bytes()), "unknown-status-code", true) }
                1 => { let other = if original.status_code == 200 { "Not Found" } else { "OK" }; let mut v = format!("{} {} {}", original.http_version, original.status_code, other).into_bytes(); v.extend_from_slice(&bytes[line_end..]); (Some(v), "reason-mismatch", true) }
                2 => { let mut v = status_line.replacen(original.http_version.as_str(), ["HTTP/1.2", "HTTP/3.0", "HTTX/1.1", "HTTP"][*which as usize % 4], 1).into_bytes(); v.extend_from_slice(&bytes[line_end..]); (Some(v), "unknown-version", true) }
                3 if multi => { // opening delimiter removed
                    let head_end = find_sub(&bytes, b"\r\n\r\n").map(|p| p + 4).unwrap_or(0);
                    let first_line_end = find_sub(&bytes[head_end..], b"\r\n").map(|p| head_end + p + 2).unwrap_or(head_end);
                    let mut v = bytes[..head_end].to_vec(); v.extend_from_slice(&bytes[first_line_end..]); (Some(v), "opening-delimiter-removed", true) }
                4 if multi => { let cut = bytes.len() - "\r\n--String_separator".len(); (Some(bytes[..cut].to_vec()), "closing-delimiter-removed", true) }
                5 if multi => { let p = &resp.parts[*which as usize % resp.parts.len()]; if p.start == u64::MAX { (None, "", true) } else { (replace_first(&bytes, format!("bytes {}-{}/{}", p.start, p.end, p.size).as_bytes(), format!("bytes {}-{}/{}", p.end + 1, p.end, p.size).as_bytes()), "start-after-end", true) } }
                6 if multi => { let p = &resp.parts[*which as usize % resp.parts.len()]; (replace_first(&bytes, format!("bytes {}-{}/{}", p.start, p.end, p.size).as_bytes(), format!("bytes {}-{}/{}", p.start, p.size + 1, p.size).as_bytes()), "end-after-size", p.size < i64::MAX as u64) }
                7 if multi => { let p = &resp.parts[*which as usize % resp.parts.len()]; let junk = ["x", "", "1e3", "-", "9223372036854775808"][*which as usize % 5]; (replace_first(&bytes, format!("bytes {}-{}/{}", p.start, p.end, p.size).as_bytes(), format!("bytes {}-{}/{}", junk, p.end, p.size).as_bytes()), "non-numeric-range-field", true) }
                8 if multi => { // a part header line deleted
                    let p = &resp.parts[*which as usize % resp.parts.len()];
                    // the writer puts two blanks after the colon of part headers
                    let lines = if which % 2 == 0 { [format!("Content-Range:  bytes {}-{}/{}\r\n", p.start, p.end, p.size), format!("Content-Range: bytes {}-{}/{}\r\n", p.start, p.end, p.size)] } else { [format!("Content-Type:  {}\r\n", p.content_type), format!("Content-Type: {}\r\n", p.content_type)] };
                    // delete inside the body section only
                    let head_end = find_sub(&bytes, b"\r\n\r\n").map(|p| p + 4).unwrap_or(0);
                    let r = lines.iter().find_map(|line| replace_first(&bytes[head_end..], line.as_bytes(), b""));
                    (r.map(|t| { let mut v = bytes[..head_end].to_vec(); v.extend_from_slice(&t); v }), "part-header-line-deleted", true) }
                _ => (None, "", true),
            };
            let corrupted = match corrupted { Some(c) if c != bytes => c, _ => return Verdict::Discard };
            match catch(|| Response::parse(&corrupted)) {
                Err((m, loc)) => Verdict::fail(format!("panic:Response::parse:{}", m), format!("panic at {} on a {} corruption", loc, class)),
                Ok(Err(_)) => Verdict::passc(true, vec![class]),
                Ok(Ok(parsed)) => {
                    if !must_reject { return Verdict::passc(true, vec![class]); }
                    let sig = format!("corruption-accepted:{}", class);
                    ctx.judge(vec![(sig, format!("{}: parse returned Ok (status {}, {} part(s) where {} were written) for {}", class, parsed.status_code, parsed.content_range_list.len(), resp.parts.len(), crate::fw::util::lossy(&corrupted, 260)))], true, vec![class])
                }
            }
        }
    }
}

pub fn run(ctx: &Ctx) {
    let max = if ctx.quick() { 2048 } else { 65536 };
    ctx.prop("roundtrip", ctx.share(ctx.scale(40_000, 2_000_000)), resp_strategy(max).prop_map(|resp| Case::RoundTrip { resp }), |c| eval(ctx, c));
    ctx.prop("corruptions", ctx.share(ctx.scale(24_000, 1_000_000)), (resp_strategy(256), 0u8..9, any::<u16>()).prop_map(|(resp, what, which)| Case::Corruption { resp, what, which }), |c| eval(ctx, c));
}

pub fn replay(ctx: &Ctx, _section: &str, case: &Value) -> Verdict {
    match serde_json::from_value::<Case>(case.clone()) { Ok(c) => eval(ctx, &c), Err(e) => Verdict::fail("replay-unreadable", e.to_string()) }
}
