//! C04 — every connection is answered; no input can crash the server.
use super::common::*;
use crate::fw::greq::LineClass;
use crate::fw::inproc::AppKind;
use crate::fw::{mhttp, Ctx, RunSpec, Tier, Verdict};
use serde_json::Value;

pub fn spec(tier: Tier) -> RunSpec {
    let mut s = spec0(tier);
    // Server::process on a mock transport (whose read reports end of stream) returns within microseconds; a call that has not
    // returned after 60 s never will - the worker that runs it would be lost for good
    s.case_limit_s = 60;
    s.hang_is_violation = true;
    s
}

fn spec0(tier: Tier) -> RunSpec {
    super::base_spec(
        8,
        "G-REQ: structured requests (coherent requests to every endpoint of the demo application and free combinations of method/target/version/headers/body with hostile values: \
targets without leading slash, junk and extreme numeric fields, non-UTF-8 and control bytes, binary and malformed form/multipart bodies) x 0-4 byte-level mutations \
(truncate, delete, insert, replace, drop CR, drop/duplicate LF, bit flip, hundreds to thousands of filler header lines, oversize beyond the buffer) x buffer size in {256, 10000, 100000} \
x application in {App, handler returning Err, handler returning a fixed response}, in-process on Server::process over a fixed small docroot. \
Oracle: no panic/abort (worker supervisor attributes an abort to the in-flight case); exactly one response accepted by M-HTTP with Content-Length == body length (empty body for HEAD/OPTIONS); \
status >= 400 when the harness's pre-parser says the request line must be rejected or the handler returned Err. \
A quarter of the production-entry cases with the default buffer and the real application are sent to the release binary over loopback instead of Server::process on the mock transport (same oracle; a server-side panic shows as a connection closed without response bytes). Non-trivial = carries a mutation or hostile field and is not rejected by the first-line check alone; distinct by generated case. Saved corpus files (corpus/c04) are replayed first. Section aborted-before-accept: 0-5 connections reset, 0-3 reset after half a request and 0-3 closed while they wait in the backlog of the stopped binary (1, 2 or 4 workers); afterwards the process runs and a probe gets its one complete response. Section far-beyond-the-buffer: requests 10 KB to 650 KB longer than the buffer for files of 10 bytes to 3 MiB, all through the real binary (the tail is written while the response is read).",
        &["the harness's lenient request-line pre-parser decides only the classes the statement names; lower case, extra blanks, tabs assert totality only",
          "in-process route: process survival is observed as absence of panic/abort of the worker process; the real-binary tier is part of C06"],
        if tier == Tier::Quick { 900 } else { 14400 },
    )
}

pub fn eval(ctx: &Ctx, c: &ServerCase) -> Verdict {
    let e = examine(c);
    let mut problems: Vec<(String, String)> = vec![];
    let mut classes: Vec<&'static str> = vec![];
    match &e.out.result {
        Err((msg, loc)) => {
            problems.push((format!("panic:{}:{}", panic_module(loc), msg), format!("panic at {}; {}", loc, describe(&e))));
        }
        Ok(res) => {
            match &e.resp {
                Err(p) => problems.push((p.sig.clone(), format!("{}; {}", p.detail, describe(&e)))),
                Ok(r) => {
                    let (ps, _notes) = mhttp::wellformed(r, e.no_body_by_method.unwrap_or(false));
                    for p in ps {
                        if p.sig == "content-length-differs-from-body" || p.sig == "body-on-head-or-options" {
                            if e.no_body_by_method.is_none() { continue; }
                            problems.push((format!("not-exactly-one-response:{}", p.sig), format!("{}; {}", p.detail, describe(&e))));
                        }
                    }
                    if let LineClass::MustReject(why) = &e.line {
                        if r.status < 400 { problems.push((format!("unparseable-request-answered-{}xx", r.status / 100), format!("pre-parser: {}; {}", why, describe(&e)))); }
                    }
                    // a multipart form that is well formed except for a part whose Content-Disposition is not a form-data disposition cannot be parsed as a form
                    if c.app == AppKind::Real && !c.legacy && e.bytes.len() <= e.bufsize {
                        if let Some(why) = multipart_form_must_reject(&e.bytes) {
                            classes.push("multipart-form-with-an-unusable-disposition");
                            if r.status < 400 { problems.push((format!("unparseable-form-answered-{}xx", r.status / 100), format!("pre-parser: {}; {}", why, describe(&e)))); }
                        }
                    }
                    if c.app == AppKind::ReturnsErr && !c.legacy && r.status < 400 { problems.push(("handler-error-answered-without-error-status".into(), describe(&e))); }
                    classes.push(match r.status { 200 => "status-200", 204 => "status-204", 206 => "status-206", 400 => "status-400", 404 => "status-404", 416 => "status-416", 500 => "status-500", _ => "status-other" });
                }
            }
            let _ = res;
        }
    }
    match &e.line { LineClass::Valid { .. } => classes.push("line-valid"), LineClass::MustReject(_) => classes.push("line-must-reject"), LineClass::Unspecified { .. } => classes.push("line-unspecified") }
    if e.bytes.len() > e.bufsize { classes.push("oversized"); }
    if super::common::via_binary(c) { classes.push("sent-to-the-real-binary"); }
    if c.app != AppKind::Real { classes.push("custom-application"); }
    if e.bytes.iter().filter(|b| **b == b'\n').count() > 200 { classes.push("more-than-200-lines"); }
    let nontrivial = hostile(c) && !matches!(e.line, LineClass::MustReject(_));
    ctx.judge(problems, nontrivial, classes)
}

/// Sound and deliberately narrow: Some(reason) only for a POST to the multipart echo endpoint whose framing is exactly what a browser sends (boundary XB,
/// CRLF line ends, closing delimiter) and in which some part's only Content-Disposition names a type other than form-data / attachment / inline, or is
/// form-data without a name parameter (RFC 7578 section 4.2 requires it). Anything else: None (no demand).
pub fn multipart_form_must_reject(bytes: &[u8]) -> Option<&'static str> {
    let text = std::str::from_utf8(bytes).ok()?;
    let (head, body) = text.split_once("\r\n\r\n")?;
    let mut lines = head.split("\r\n");
    if lines.next()? != "POST /form-multipart-enctype-post-method HTTP/1.1" { return None; }
    let mut ct = 0;
    for l in lines { let (n, v) = l.split_once(": ")?; if n.eq_ignore_ascii_case("content-type") { if v != "multipart/form-data; boundary=XB" { return None; } ct += 1; } else if n.eq_ignore_ascii_case("content-length") { if v.parse::<usize>().ok()? != body.len() { return None; } } }
    if ct != 1 { return None; }
    let inner = body.strip_prefix("--XB\r\n")?;
    let inner = inner.strip_suffix("\r\n--XB--\r\n").or_else(|| inner.strip_suffix("\r\n--XB--"))?;
    let mut verdict = None;
    for part in inner.split("\r\n--XB\r\n") {
        let (phead, pbody) = part.split_once("\r\n\r\n")?;
        if pbody.contains("--XB") { return None; }
        // only header blocks of printable ASCII are judged (the server drops control characters from header lines before it reads them:
        // 'n<TAB>ame="a"' is a name parameter to it - earlier versions of this rule called that part nameless and raised a false alarm: a TAB on quick seed 104, a bare CR on thorough seed 2)
        if !phead.split("\r\n").all(|line| line.bytes().all(|b| (0x20..0x7f).contains(&b))) { return None; }
        let mut disp: Vec<&str> = vec![];
        for l in phead.split("\r\n") { let (n, v) = l.split_once(": ")?; if !n.bytes().all(|b| b.is_ascii_alphanumeric() || b == b'-') { return None; } if n.eq_ignore_ascii_case("content-disposition") { disp.push(v); } }
        if disp.len() != 1 { return None; }
        let ty = disp[0].split(';').next().unwrap_or("").trim().to_ascii_lowercase();
        if !ty.bytes().all(|b| b.is_ascii_alphanumeric() || b == b'-') || ty.is_empty() { return None; }
        if !matches!(ty.as_str(), "form-data" | "attachment" | "inline") { verdict = Some("a part's Content-Disposition names a type that is not form-data"); }
        else if ty == "form-data" && !disp[0].to_ascii_lowercase().contains("name") { verdict = Some("a form-data part without a name parameter"); }
    }
    verdict
}

/// Raw client bytes (corpus files, fuzzer inputs): no panic, exactly one parseable response, error status where the pre-parser demands it.
pub fn judge_bytes(ctx: &Ctx, bytes: &[u8], bufsize: usize, app: AppKind) -> Verdict {
    let e = examine_bytes(bytes.to_vec(), bufsize, app, false, Default::default());
    let mut problems = vec![];
    match &e.out.result {
        Err((m, loc)) => problems.push((format!("panic:{}:{}", panic_module(loc), m), format!("panic at {}; {}", loc, describe(&e)))),
        Ok(_) => match &e.resp {
            Err(p) => problems.push((p.sig.clone(), describe(&e))),
            Ok(r) => {
                let (ps, _) = mhttp::wellformed(r, e.no_body_by_method.unwrap_or(false));
                for p in ps { if (p.sig == "content-length-differs-from-body" || p.sig == "body-on-head-or-options") && e.no_body_by_method.is_some() { problems.push((format!("not-exactly-one-response:{}", p.sig), format!("{}; {}", p.detail, describe(&e)))); } }
                if let LineClass::MustReject(why) = &e.line { if r.status < 400 { problems.push((format!("unparseable-request-answered-{}xx", r.status / 100), format!("pre-parser: {}; {}", why, describe(&e)))); } }
                if app == AppKind::ReturnsErr && r.status < 400 { problems.push(("handler-error-answered-without-error-status".into(), describe(&e))); }
            }
        },
    }
    ctx.judge(problems, true, vec![])
}

pub fn eval_beside(ctx: &Ctx, c: &ServerCase) -> Verdict {
    if c.app != AppKind::Real { return Verdict::pass(false); }
    let bytes = c.req.render(10000);
    match crate::fw::inproc::binary_answers_beside_idle_connections(&bytes, 1) {
        Some(true) => Verdict::passc(true, vec!["answered-beside-an-idle-connection"]),
        Some(false) => ctx.judge(vec![("answered-only-after-an-unrelated-idle-connection-was-closed".to_string(), format!("with one other connection open and silent on a 2-worker server, the request was answered only after that connection had been closed (observed twice); request {}", crate::fw::util::lossy(&bytes, 120)))], true, vec![]),
        None => Verdict::Discard,
    }
}

pub fn run(ctx: &Ctx) {
    crate::fw::inproc::init_env();
    let _tree = match fixed_docroot() { Ok(t) => t, Err(e) => { ctx.inconclusive(&format!("docroot: {}", e)); return; } };
    // saved corpus (fuzzer findings, fixtures): raw request bytes, replayed with the default buffer
    ctx.set_section("corpus");
    // corpus files carry the fuzz target's selector byte first (buffer size, application kind), then the client bytes
    replay_corpus(ctx, "c04", |ctx, data| {
        if data.is_empty() { return Verdict::pass(false); }
        let sel = data[0];
        let bufsize = [10000usize, 10000, 256, 100000][(sel & 3) as usize];
        let app = match (sel >> 2) & 3 { 1 => AppKind::ReturnsErr, 2 => AppKind::Fixed, _ => AppKind::Real };
        judge_bytes(ctx, &data[1..], bufsize, app)
    });
    super::common::binary_begin(ctx, &_tree.root);
    // a case that fails by silence costs seconds per evaluation: bound the shrinking
    *ctx.max_shrink_iters.borrow_mut() = 120;
    ctx.prop("generated", ctx.share(ctx.scale(40_000, 3_000_000)), server_case_strategy(false), |c| eval(ctx, c));
    // one silent connection beside the request (the binary runs two workers): the bytes of the second connection have arrived, it must be answered
    // although the first client has not said anything yet
    ctx.prop("beside-an-idle-connection", ctx.share(ctx.scale(160, 6000)), server_case_strategy(false), |c| eval_beside(ctx, c));
    // requests tens to hundreds of KB longer than the buffer, for files of 10 bytes to 3 MiB, all through the real binary: what the server does with the
    // part of the input it never parses (discarding it, closing with it unread) decides whether the one response arrives complete
    ctx.prop("far-beyond-the-buffer", ctx.share(ctx.scale(320, 12_000)), far_case_strategy(), |c| eval(ctx, c));
    super::common::binary_end(ctx);
    // connections that end before the server has looked at them (reset or closed while they wait in the backlog, some after half a request): the process
    // keeps running and the next client gets its one complete response
    { use proptest::prelude::*;
      let ac = (0u8..6, 0u8..4, 0u8..4, prop::sample::select(vec![1u8, 2, 4]), any::<u8>()).prop_map(|(resets, closes, half_resets, workers, probe)| AbortCase { resets, closes, half_resets, workers, probe });
      let root = _tree.root.clone();
      ctx.prop("aborted-before-accept", ctx.share(ctx.scale(160, 8000)), ac, |c| eval_aborted(ctx, &root, c)); }
    std::env::set_current_dir("/").ok();
}

#[derive(Clone, Debug, serde::Serialize, serde::Deserialize)]
pub struct AbortCase { pub resets: u8, pub closes: u8, pub half_resets: u8, pub workers: u8, pub probe: u8 }

pub fn eval_aborted(ctx: &Ctx, root: &std::path::Path, c: &AbortCase) -> Verdict {
    use crate::fw::net::{self, Outcome, Server, ServerOpts};
    use std::io::Write;
    let mut srv = match Server::start(&ServerOpts::new(root, c.workers.max(1) as u32)) { Ok(s) => s, Err(e) => { ctx.inconclusive(&format!("real binary did not start: {}", e)); return Verdict::Discard; } };
    srv.sigstop();
    for _ in 0..c.resets { if let Ok(s) = srv.connect() { net::reset(s); } }
    for _ in 0..c.half_resets { if let Ok(mut s) = srv.connect() { let _ = s.write_all(b"GET /a.txt HT"); net::reset(s); } }
    for _ in 0..c.closes { if let Ok(s) = srv.connect() { drop(s); } }
    srv.sigcont();
    let probe: &[u8] = match c.probe % 3 { 0 => b"GET /a.txt HTTP/1.1\r\nHost: localhost\r\n\r\n", 1 => b"GET /missing HTTP/1.1\r\n\r\n", _ => b"HEAD /big.bin HTTP/1.1\r\n\r\n" };
    let ex = srv.roundtrip(probe, std::time::Duration::from_secs(5));
    let mut problems = vec![];
    let what = format!("{} reset, {} reset after half a request, {} closed connection(s) in the backlog of a {}-worker server", c.resets, c.half_resets, c.closes, c.workers.max(1));
    if let Some(e) = srv.exited() { problems.push(("server-process-gone".to_string(), format!("after {}: the server process ended with {} ({})", what, e, srv.log_tail()))); }
    else {
        match (&ex.outcome, mhttp::parse(&ex.bytes)) {
            (Outcome::TimedOut, _) if ex.bytes.is_empty() => { ctx.inconclusive("probe after aborted connections not answered within 5 s although the process runs"); return Verdict::Discard; }
            (_, Ok(r)) => { let want = match c.probe % 3 { 0 => 200, 1 => 404, _ => 200 }; if r.status != want { problems.push(("probe-answered-with-wrong-status".to_string(), format!("after {}: status {} where {} is expected", what, r.status, want))); } }
            (o, Err(p)) => problems.push((format!("probe-not-answered-after-aborted-connections:{}", p.sig), format!("after {}: outcome {:?}, {} bytes", what, o, ex.bytes.len()))),
        }
    }
    ctx.judge(problems, c.resets + c.half_resets + c.closes > 0, vec!["connections-aborted-in-the-backlog"])
}

fn far_case_strategy() -> impl proptest::strategy::Strategy<Value = ServerCase> {
    use crate::fw::greq::{Base, Mut, ReqCase};
    use crate::fw::util::Bytes;
    use proptest::prelude::*;
    (prop::sample::select(vec!["/huge.bin", "/huge.bin", "/big.bin", "/a.txt", "/", "/missing", "/sub/x.json"]), prop::sample::select(vec!["GET", "GET", "POST", "HEAD"]), 49152u16..=65535,
     prop::sample::select(vec!["", "Content-Type: application/octet-stream", "Range: bytes=0-2999999", "Transfer-Encoding: chunked"]), any::<bool>())
        .prop_map(|(target, method, delta, header, with_length)| {
            let mut headers = vec![("Host".to_string(), Bytes(b"localhost".to_vec()))];
            if let Some((n, v)) = header.split_once(": ") { headers.push((n.to_string(), Bytes(v.as_bytes().to_vec()))); }
            if with_length { headers.push(("Content-Length".to_string(), Bytes(((delta as usize - 49152) * 40).to_string().into_bytes()))); }
            ServerCase { req: ReqCase { base: Base { method: method.to_string(), target: target.to_string(), version: "HTTP/1.1".to_string(), headers, body: Bytes(vec![]) }, muts: vec![Mut::Oversize(delta)] }, buf: 0, app: AppKind::Real, legacy: false, binary: true }
        })
}

/// Replay every file under /verif/corpus/<name>/ (worker-sharded).
pub fn replay_corpus(ctx: &Ctx, name: &str, f: impl Fn(&Ctx, &[u8]) -> Verdict) {
    replay_corpus_with(ctx, name, |ctx, bytes| (f(ctx, bytes), Value::Null));
}

/// `f` returns the verdict and the case as the check's own replay format (Null: the raw bytes are saved instead).
pub fn replay_corpus_with(ctx: &Ctx, name: &str, f: impl Fn(&Ctx, &[u8]) -> (Verdict, Value)) {
    let dir = std::path::PathBuf::from(crate::fw::verif_dir()).join("corpus").join(name);
    let mut files: Vec<std::path::PathBuf> = std::fs::read_dir(&dir).map(|rd| rd.filter_map(|e| e.ok()).map(|e| e.path()).filter(|p| p.is_file()).collect()).unwrap_or_default();
    files.sort();
    // plain files hold one input each; *.pack files hold many (u32 little-endian length + bytes, written by tools/pack_corpus.py)
    let mut inputs: Vec<(String, Vec<u8>)> = vec![];
    for p in files.iter() {
        let bytes = match std::fs::read(p) { Ok(b) => b, Err(_) => continue };
        if p.extension().map(|e| e == "pack").unwrap_or(false) {
            let (mut i, mut k) = (0usize, 0usize);
            while i + 4 <= bytes.len() {
                let n = u32::from_le_bytes([bytes[i], bytes[i + 1], bytes[i + 2], bytes[i + 3]]) as usize;
                if i + 4 + n > bytes.len() { break; }
                inputs.push((format!("{}#{}", p.to_string_lossy(), k), bytes[i + 4..i + 4 + n].to_vec()));
                i += 4 + n; k += 1;
            }
        } else { inputs.push((p.to_string_lossy().to_string(), bytes)); }
    }
    for (i, (label, bytes)) in inputs.iter().enumerate() {
        if i as u32 % ctx.workers != ctx.worker { continue; }
        ctx.inflight(&serde_json::json!({"corpus_file": label, "bytes": crate::fw::util::Bytes(bytes.clone())}));
        let (v, case) = f(ctx, bytes);
        let b2 = bytes.clone();
        ctx.count(&v, crate::fw::hash64(bytes), || if case.is_null() { serde_json::json!({"corpus_file": label, "bytes": crate::fw::util::Bytes(b2)}) } else { case });
    }
    ctx.clear_inflight();
}

pub fn replay(ctx: &Ctx, section: &str, case: &Value) -> Verdict {
    crate::fw::inproc::init_env();
    let _tree = match fixed_docroot() { Ok(t) => t, Err(e) => return Verdict::fail("replay-docroot-failed", e.to_string()) };
    if super::common::replay_wants_binary(case) { super::common::binary_begin(ctx, &_tree.root); }
    if section == "aborted-before-accept" { return match serde_json::from_value::<AbortCase>(case.clone()) { Ok(c) => eval_aborted(ctx, &_tree.root, &c), Err(e) => Verdict::fail("replay-unreadable", e.to_string()) }; }
    if section == "beside-an-idle-connection" {
        super::common::binary_begin(ctx, &_tree.root);
        let v = match serde_json::from_value::<ServerCase>(case.clone()) { Ok(c) => eval_beside(ctx, &c), Err(e) => Verdict::fail("replay-unreadable", e.to_string()) };
        super::common::binary_end(ctx);
        return v;
    }
    if let Some(b) = case.get("bytes").and_then(|b| b.as_str()) {
        let data = crate::fw::util::unescape_bytes(b);
        if data.is_empty() { return Verdict::pass(false); }
        let sel = data[0];
        let bufsize = [10000usize, 10000, 256, 100000][(sel & 3) as usize];
        let app = match (sel >> 2) & 3 { 1 => AppKind::ReturnsErr, 2 => AppKind::Fixed, _ => AppKind::Real };
        return judge_bytes(ctx, &data[1..], bufsize, app);
    }
    let _ = section;
    match serde_json::from_value::<ServerCase>(case.clone()) {
        Ok(c) => eval(ctx, &c),
        Err(e) => Verdict::fail("replay-unreadable", e.to_string()),
    }
}
