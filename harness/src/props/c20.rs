//! C20 — library parsers report errors instead of panicking.
use crate::fw::greq::{apply_muts, mut_strategy, Mut};
use crate::fw::util::Bytes;
use crate::fw::{catch, hash64, Ctx, RunSpec, Tier, Verdict};
use proptest::prelude::*;
use serde::{Deserialize, Serialize};
use serde_json::Value;

pub fn spec(tier: Tier) -> RunSpec {
    let mut s = spec0(tier);
    // the statement includes termination: a call on an input of at most a few hundred KiB that has not returned after 60 s
    // (typical: microseconds to milliseconds; slowest legitimate case measured: see evidence notes) is reported as hang:<entry point>
    s.case_limit_s = 60;
    s.hang_is_violation = true;
    s
}

fn spec0(tier: Tier) -> RunSpec {
    super::base_spec(
        16,
        "one section per parsing entry point (JSON::parse_as_properties, JSONProperty::parse, RawUnprocessedJSONArray::split_into_vector_of_strings, the 15 typed parse_as_list_* readers, JSONArrayOfObjects::from_json, Base64::decode, \
FormMultipartData::parse / extract_boundary, Request::parse, Response::parse, Header::parse, ContentDisposition::parse, Range::parse_range_in_content_range, Range::parse_content_range, Range::_parse_content_range_header_value, Range::_parse_raw_content_range_header_value, \
Range::parse_multipart_body, read_config_file, UrlPath::{extract_parts_from_pattern, is_matching, extract, build}). Inputs: valid documents of the entry point's format (repository fixtures and harness-made ones) under 0..4 structure-aware byte mutations \
(truncate at any position, delete, insert / replace with delimiters, CR, LF, NUL, non-ASCII and non-UTF-8 bytes, bit flips, letter case changes, dropped/duplicated line breaks), raw random bytes, nesting to depth 10,000, lines of 64 KiB, thousands of lines / header lines / parts. \
Oracle: the call returns Ok or Err - no panic (hook + catch_unwind), no abort / stack overflow (the supervisor attributes the death of a worker to the in-flight case), no hang (watchdog -> inconclusive). \
Non-trivial = the input is a mutated valid document or a structural stress input (it reaches past the first validity check of its format) rather than raw noise; distinct by (entry point, input).",
        &["inputs to entry points that take &str / String are made valid UTF-8 by lossy conversion (a String cannot hold anything else)", "code under test runs on a 2 MiB stack, the size the server gives its workers"],
        if tier == Tier::Quick { 900 } else { 14400 },
    )
}

#[derive(Clone, Debug, Serialize, Deserialize, PartialEq, Eq, Hash)]
pub enum Input {
    Doc { seed: u16, muts: Vec<Mut> },
    Raw(Bytes),
    Nest { open: String, close: String, inner: String, depth: u32 },
    Lines { head: String, line: String, count: u32, tail: String },
}

#[derive(Clone, Debug, Serialize, Deserialize)]
pub struct Case { pub entry: String, pub input: Input, pub aux: String }

pub const ENTRIES: [&str; 38] = [
    "json-object", "json-property", "json-array-split", "json-array-objects",
    "list-i8", "list-i16", "list-i32", "list-i64", "list-i128", "list-u8", "list-u16", "list-u32", "list-u64", "list-u128", "list-f32", "list-f64", "list-string", "list-bool", "list-null",
    "base64-decode", "multipart-parse", "multipart-extract-boundary", "request-parse", "response-parse", "header-parse", "content-disposition-parse",
    "range-spec", "content-range-value", "byteranges-body", "byteranges-body-with-boundary", "config-file", "urlpath-pattern", "urlpath-is-matching", "urlpath-extract", "urlpath-build", "request-line",
    "range-header-value", "content-range-value-raw",
];

/// Entry point named by the first byte of a fuzz input: the first 36 keep the numbering the saved campaigns were made with, later ones take the top of the byte range.
pub fn entry_for_byte(b: u8) -> &'static str {
    let extra = ENTRIES.len() - 36;
    if (b as usize) >= 256 - extra { ENTRIES[36 + (b as usize - (256 - extra))] } else { ENTRIES[b as usize % 36] }
}

/// An existing file for the entry points that take a file path next to the text to parse (the tree's own Cargo.toml: nothing is written).
fn sample_file() -> String { format!("{}/Cargo.toml", option_env!("RWS_VERIF_SRC_USED").unwrap_or("/repo")) }

fn fixture(rel: &str) -> Vec<u8> {
    let base = option_env!("RWS_VERIF_SRC_USED").unwrap_or("/repo");
    std::fs::read(format!("{}/{}", base, rel)).unwrap_or_default()
}

/// Valid documents per entry point.
pub fn seeds(entry: &str) -> Vec<Vec<u8>> {
    let s = |v: &[&str]| -> Vec<Vec<u8>> { v.iter().map(|x| x.as_bytes().to_vec()).collect() };
    match entry {
        "json-object" => s(&["{ \"a\": 1, \"b\": \"text\", \"c\": true, \"d\": null, \"e\": 1.5, \"f\": { \"g\": [1,2] }, \"h\": [ { \"x\": 1 } ] }", "{\r\n  \"s\": \"v\",\r\n  \"i\": -12,\r\n  \"f\": 0.5,\r\n  \"o\": {\r\n  \"b\": false\r\n},\r\n  \"a\": [{\r\n  \"s\": \"x\"\r\n}]\r\n}", "{}", "{ \"k\": \"}{][,:\" }", "{\"a\":{\"b\":{\"c\":{\"d\":1}}}}"]),
        "json-property" => s(&["\"key\": \"value\"", "\"k\": 12", "\"k\": -1.5e3", "\"k\": [1, 2]", "\"k\": {\"a\": 1}", "\"k\": null", "\"k\": true", "\"k\":false"]),
        "json-array-split" | "json-array-objects" => s(&["[1,2,3]", "[\"a\", \"b\"]", "[true,false,null]", "[{\"s\": \"x\"},\r\n{\"s\": \"y\", \"i\": 2}]", "[[1],[2,[3]]]", "[1.5, -2e3, 0]", "[]", "[ \"x\" , \"y\" ]", "[{\"a\": [\"]\"]}]"]),
        e if e.starts_with("list-") => s(&["[1,2,3]", "[-1,0,127]", "[0.5,-1.25,1e3]", "[\"a\",\"b c\",\"\"]", "[true,false]", "[null,null]", "[]", "[340282366920938463463374607431768211455]", "[ 1 , 2 ]", "[1,2", "[x]"]),
        "base64-decode" => s(&["Zm9vYmFy", "Zg==", "Zm8=", "", "QUJDREVGR0hJSktMTU5PUFFSU1RVVldYWVo=", "+/+/", "AAAA"]),
        "multipart-parse" => vec![
            b"--XB\r\nContent-Disposition: form-data; name=\"a\"\r\n\r\nvalue\r\n--XB\r\nContent-Disposition: form-data; name=\"f\"; filename=\"x.bin\"\r\nContent-Type: application/octet-stream\r\n\r\n\x00\xff\x01\r\n--XB--\r\n".to_vec(),
            b"XB\r\nContent-Disposition: form-data; name=\"a\"\r\n\r\nv\r\nXB".to_vec(),
            b"--XB\r\nContent-Disposition: form-data; name=\"a\"\r\n\r\n\r\n--XB--".to_vec(),
        ],
        "multipart-extract-boundary" => s(&["multipart/form-data; boundary=----WebKitFormBoundary7MA4YWxkTrZu0gW", "multipart/form-data; boundary=XB", "multipart/byteranges; boundary=String_separator", "text/plain"]),
        "request-parse" | "request-line" => { let mut v = vec![fixture("src/request/example/request.txt"), fixture("src/request/query.request.txt"), fixture("src/request/no-path.query.request.txt"), b"GET / HTTP/1.1\r\nHost: localhost\r\nContent-Length: 5\r\n\r\nhello".to_vec(), b"POST /x?y=1 HTTP/1.0\r\nA: b: c\r\n\r\n".to_vec()]; v.retain(|x| !x.is_empty()); v }
        "response-parse" | "response-parse-legacy" => { let mut v = vec![fixture("src/response/example/response.txt"), fixture("src/response/example/response.multipart.txt"),
            b"HTTP/1.1 200 OK\r\nContent-Type: text/plain\r\nContent-Range: bytes 0-5/5\r\nContent-Length: 5\r\n\r\nhello".to_vec(),
            // multipart responses whose boundary parameter is empty, hyphens only, quoted, or missing - each followed by well-formed parts
            b"HTTP/1.1 206 Partial Content\r\nContent-Type: multipart/byteranges; boundary=\r\n\r\n--\r\nContent-Type: text/plain\r\nContent-Range: bytes 0-1/10\r\n\r\nab\r\n--\r\nContent-Type: text/plain\r\nContent-Range: bytes 4-5/10\r\n\r\nef\r\n----".to_vec(),
            b"HTTP/1.1 206 Partial Content\r\nContent-Type: multipart/byteranges; boundary=-\r\n\r\n---\r\nContent-Type: text/plain\r\nContent-Range: bytes 0-1/10\r\n\r\nab\r\n---\r\nContent-Type: text/plain\r\nContent-Range: bytes 4-5/10\r\n\r\nef\r\n-----".to_vec(),
            b"HTTP/1.1 206 Partial Content\r\nContent-Type: multipart/byteranges; boundary=\"q\"\r\n\r\n--q\r\nContent-Type: text/plain\r\nContent-Range: bytes 0-1/10\r\n\r\nab\r\n--q--".to_vec(),
            b"HTTP/1.1 206 Partial Content\r\nContent-Type: multipart/byteranges\r\n\r\n--q\r\nContent-Type: text/plain\r\nContent-Range: bytes 0-1/10\r\n\r\nab\r\n--q--".to_vec(),
            b"HTTP/1.1 206 Partial Content\r\nContent-Type: multipart/byteranges; boundary=String_separator\r\n\r\n--String_separator\r\nContent-Type:  text/plain\r\nContent-Range:  bytes 0-1/10\r\n\r\nab\r\n--String_separator\r\nContent-Type:  text/plain\r\nContent-Range:  bytes 4-5/10\r\n\r\nef\r\n--String_separator".to_vec()]; v.retain(|x| !x.is_empty()); v }
        "header-parse" => s(&["Content-Type: text/html", "Host: localhost:80", "X: ", "Name:value:with:colons", "A: b\r\n"]),
        "content-disposition-parse" => s(&["form-data; name=\"a\"; filename=\"b.txt\"", "attachment; filename=\"x\"", "inline", "form-data; name=\"field\"", "form-data"]),
        "range-spec" => s(&["0-5", "5-", "-5", "0-0", "3 - 4", "10-20"]),
        "range-header-value" => s(&["bytes=0-5", "bytes=5-", "bytes=-5", "bytes=0-0, 2-3", "bytes=0-1,4-5,8-9", "bytes=3 - 4", "items=0-5", "bytes=9-20"]),
        "content-range-value" | "content-range-value-raw" => s(&["bytes 0-5/10", "bytes 0-0/0", "bytes 9223372036854775806-9223372036854775807/9223372036854775807", "BYTES 1-2/3"]),
        "byteranges-body" | "byteranges-body-legacy" | "byteranges-body-with-boundary" => vec![
            b"--\r\nContent-Type: text/plain\r\nContent-Range: bytes 0-1/10\r\n\r\nab\r\n--\r\nContent-Type: text/plain\r\nContent-Range: bytes 4-5/10\r\n\r\nef\r\n----".to_vec(),
            b"\r\nContent-Type: text/plain\r\nContent-Range: bytes 0-1/10\r\n\r\nab\r\n".to_vec(),b"--String_separator\r\nContent-Type:  text/plain\r\nContent-Range:  bytes 0-1/10\r\n\r\nab\r\n--String_separator\r\nContent-Type:  text/plain\r\nContent-Range:  bytes 4-5/10\r\n\r\nef\r\n--String_separator".to_vec()],
        "config-file" => { let mut v = vec![fixture("rws.config.toml"), fixture("src/test/app/rws.config.toml"), b"ip = '127.0.0.1'\nport = 1\n[cors]\nallow_all = true\n".to_vec()]; v.retain(|x| !x.is_empty()); v }
        e if e.starts_with("urlpath") => s(&["/user/[[id]]/post/[[post]]", "/static/[[file]]", "/a/b/c", "[[x]]", "/[[a]][[b]]", "/p/[[q]]/"]),
        _ => s(&[""]),
    }
}

pub fn aux_for(entry: &str) -> Vec<&'static str> {
    match entry {
        "multipart-parse" => vec!["XB", "--XB", "", "-", "B"],
        // the boundary argument of the byteranges reader (what Response::parse extracts from the Content-Type): usual, empty, hyphens only, one character, with blanks
        "byteranges-body-with-boundary" => vec!["String_separator", "", "-", "--", "S", "String separator", "String_separator\r"],
        "range-spec" => vec!["10", "0", "18446744073709551615", "5"],
        e if e.starts_with("urlpath") => vec!["/user/1/post/2", "/static/x.png", "/a/b/c", "", "/user//post/", "/y/1", "/p/q/"],
        _ => vec![""],
    }
}

pub fn render(c: &Case) -> Vec<u8> {
    match &c.input {
        Input::Doc { seed, muts } => { let ss = seeds(&c.entry); let mut v = ss[crate::fw::util::pick_idx(*seed, ss.len())].clone();
            // padding stays at "a little more than 10000 bytes" here (the request generator's far-beyond-the-buffer sizes are a property of connections, not of parsers;
            // several of these parsers are quadratic in the input length and the watchdog would call 600 KB of Base64 text a hang)
            let muts: Vec<Mut> = muts.iter().map(|m| match m { Mut::Oversize(d) => Mut::Oversize(*d % 49152), other => other.clone() }).collect();
            apply_muts(&mut v, &muts, 10000); v }
        Input::Raw(b) => b.0.clone(),
        Input::Nest { open, close, inner, depth } => { let mut s = String::with_capacity((open.len() + close.len()) * *depth as usize + inner.len()); for _ in 0..*depth { s.push_str(open); } s.push_str(inner); for _ in 0..*depth { s.push_str(close); } s.into_bytes() }
        Input::Lines { head, line, count, tail } => { let mut s = String::with_capacity(head.len() + line.len() * *count as usize + tail.len()); s.push_str(head); for _ in 0..*count { s.push_str(line); } s.push_str(tail); s.into_bytes() }
    }
}

fn reset_config_env() { for (k, _) in std::env::vars_os() { if k.to_string_lossy().starts_with("RWS_CONFIG_") { std::env::remove_var(k); } } }

/// Call the entry point. The result value is ignored: Ok and Err are both fine.
pub fn call(entry: &str, input: &[u8], aux: &str) {
    use crate::json::array::{boolean::JSONArrayOfBooleans, float::JSONArrayOfFloats, integer::JSONArrayOfIntegers, null::JSONArrayOfNulls, object::JSONArrayOfObjects, string::JSONArrayOfStrings, RawUnprocessedJSONArray};
    let text = || String::from_utf8_lossy(input).to_string();
    match entry {
        "json-object" => { let _ = crate::json::object::JSON::parse_as_properties(text()); }
        "json-property" => { let _ = crate::json::property::JSONProperty::parse(&text()); }
        "json-array-split" => { let _ = RawUnprocessedJSONArray::split_into_vector_of_strings(text()); }
        "json-array-objects" => { let _ = JSONArrayOfObjects::<super::c19::JObj>::from_json(text()); }
        "list-i8" => { let _ = JSONArrayOfIntegers::parse_as_list_i8(text()); } "list-i16" => { let _ = JSONArrayOfIntegers::parse_as_list_i16(text()); }
        "list-i32" => { let _ = JSONArrayOfIntegers::parse_as_list_i32(text()); } "list-i64" => { let _ = JSONArrayOfIntegers::parse_as_list_i64(text()); }
        "list-i128" => { let _ = JSONArrayOfIntegers::parse_as_list_i128(text()); } "list-u8" => { let _ = JSONArrayOfIntegers::parse_as_list_u8(text()); }
        "list-u16" => { let _ = JSONArrayOfIntegers::parse_as_list_u16(text()); } "list-u32" => { let _ = JSONArrayOfIntegers::parse_as_list_u32(text()); }
        "list-u64" => { let _ = JSONArrayOfIntegers::parse_as_list_u64(text()); } "list-u128" => { let _ = JSONArrayOfIntegers::parse_as_list_u128(text()); }
        "list-f32" => { let _ = JSONArrayOfFloats::parse_as_list_f32(text()); } "list-f64" => { let _ = JSONArrayOfFloats::parse_as_list_f64(text()); }
        "list-string" => { let _ = JSONArrayOfStrings::parse_as_list_string(text()); } "list-bool" => { let _ = JSONArrayOfBooleans::parse_as_list_bool(text()); }
        "list-null" => { let _ = JSONArrayOfNulls::parse_as_list_null(text()); }
        "base64-decode" => { let _ = crate::core::base64::Base64::decode(text()); }
        "multipart-parse" => { let _ = crate::body::multipart_form_data::FormMultipartData::parse(input, aux.to_string()); }
        "multipart-extract-boundary" => { let _ = crate::body::multipart_form_data::FormMultipartData::extract_boundary(&text()); }
        "request-parse" => { let _ = crate::request::Request::parse(input); }
        "request-line" => { let _ = crate::request::Request::parse_method_and_request_uri_and_http_version_string(&text()); }
        "response-parse" => { let _ = crate::response::Response::parse(input); }
        "response-parse-legacy" => { let _ = crate::response::Response::_parse_response(input); }
        "header-parse" => { let _ = crate::header::Header::parse(&text()); }
        "content-disposition-parse" => { let _ = crate::header::content_disposition::ContentDisposition::parse(&text()); }
        "range-spec" => { let _ = crate::range::Range::parse_range_in_content_range(aux.parse::<u64>().unwrap_or(10), &text()); }
        "content-range-value" => { let _ = crate::range::Range::_parse_content_range_header_value(text()); }
        "content-range-value-raw" => { let _ = crate::range::Range::_parse_raw_content_range_header_value(&text()); }
        // the reader of a Range header value: (file path, file length, value); as at its call site the file exists and the length is the file's own
        // (a length the file does not have is outside what any caller passes: a first version of this entry varied it and raised a false alarm inside file-ext)
        "range-header-value" => { let f = sample_file(); let len = std::fs::metadata(&f).map(|m| m.len()).unwrap_or(0); let _ = crate::range::Range::parse_content_range(&f, len, &text()); }
        "byteranges-body-with-boundary" => { let mut cur = std::io::Cursor::new(input); let _ = crate::range::Range::parse_multipart_body_with_boundary(&mut cur, vec![], aux.to_string(), input.len() as i32, 0, false); }
        "byteranges-body" => { let mut cur = std::io::Cursor::new(input); let _ = crate::range::Range::parse_multipart_body(&mut cur, vec![]); }
        "byteranges-body-legacy" => { let mut cur = std::io::Cursor::new(input); let _ = crate::range::Range::_parse_multipart_body(&mut cur, vec![]); }
        "config-file" => { reset_config_env(); let cur = std::io::Cursor::new(input); let _ = crate::entry_point::config_file::read_config_file(cur, String::new()); reset_config_env(); }
        "urlpath-pattern" => { let _ = crate::url::path::UrlPath::extract_parts_from_pattern(&text()); }
        "urlpath-is-matching" => { let _ = crate::url::path::UrlPath::is_matching(aux, &text()); }
        "urlpath-extract" => { let _ = crate::url::path::UrlPath::extract(aux, &text()); }
        "urlpath-build" => { let mut m = std::collections::HashMap::new(); m.insert("id".to_string(), aux.to_string()); m.insert("file".to_string(), "f".to_string()); let _ = crate::url::path::UrlPath::build(m, &text()); }
        _ => {}
    }
}

/// Entry points documented as returning a value or an error; the two legacy underscore-prefixed readers have no error channel
/// (their signature returns the value directly) and are listed separately in evidence.
pub fn eval(ctx: &Ctx, c: &Case) -> Verdict {
    let bytes = render(c);
    let entry = c.entry.clone();
    let aux = c.aux.clone();
    let r = catch(|| call(&entry, &bytes, &aux));
    let (class, nontrivial): (&'static str, bool) = match &c.input { Input::Doc { muts, .. } => (if muts.is_empty() { "valid-document" } else { "mutated-document" }, true), Input::Raw(_) => ("raw-bytes", false), Input::Nest { .. } => ("deep-nesting", true), Input::Lines { .. } => ("many-or-long-lines", true) };
    match r {
        Ok(()) => Verdict::passc(nontrivial, vec![class]),
        Err((msg, loc)) => {
            let size_class = match &c.input { Input::Nest { .. } => ":deep-nesting", Input::Lines { .. } => ":many-lines", _ => "" };
            ctx.judge(vec![(format!("panic:{}:{}:{}{}", c.entry, super::common::panic_module(&loc), msg, size_class), format!("{} panicked at {} on {} (aux {:?})", c.entry, loc, crate::fw::util::lossy(&bytes, 200), c.aux))], nontrivial, vec![class])
        }
    }
}

fn case_strategy(entry: &'static str, thorough: bool) -> impl Strategy<Value = Case> {
    let auxs = aux_for(entry);
    let max_depth: u32 = 10_000;
    let max_lines: u32 = if thorough { 20_000 } else { 6_000 };
    let doc = (any::<u16>(), prop_oneof![2 => Just(vec![]), 5 => proptest::collection::vec(mut_strategy(), 1..=1), 3 => proptest::collection::vec(mut_strategy(), 2..=4)]).prop_map(|(seed, muts)| Input::Doc { seed, muts });
    let raw = prop_oneof![
        3 => proptest::collection::vec(any::<u8>(), 0..64).prop_map(|v| Input::Raw(Bytes(v))),
        2 => "[ -~]{0,80}".prop_map(|s| Input::Raw(Bytes(s.into_bytes()))),
        2 => proptest::collection::vec(prop::sample::select(vec!["{", "}", "[", "]", "\"", ":", ",", "-", "\\", "é", " ", "\r\n", "\n", "1", "e", ".", "null", "true", "a", "=", ";", "/", "%", "[[", "]]", "--", "\u{0}", "bytes", "HTTP/1.1", "200", "OK", "Ã©", "Ã", "©", "ÿ", "\u{80}", "Â£", "T", "W", "="]), 0..40).prop_map(|v| Input::Raw(Bytes(v.concat().into_bytes()))),
    ];
    let nest = (prop::sample::select(vec![("[", "]", "1"), ("{\"a\":", "}", "1"), ("[{\"a\":", "}]", "[]"), ("[[", "]]", "x"), ("(", ")", ""), ("\"", "\"", "x"), ("{", "}", "")]), prop_oneof![3 => 1u32..50, 2 => 50u32..2000, 1 => 2000u32..=max_depth])
        .prop_map(|((o, c, i), depth)| Input::Nest { open: o.to_string(), close: c.to_string(), inner: i.to_string(), depth });
    let lines = (prop::sample::select(vec![
            ("HTTP/1.1 200 OK\r\n", "A: b\r\n", "\r\nbody"), ("GET / HTTP/1.1\r\n", "A: b\r\n", "\r\n"), ("HTTP/1.1 200 OK\r\nContent-Type: multipart/byteranges; boundary=String_separator\r\n\r\n", "--String_separator\r\nContent-Type:  text/plain\r\nContent-Range:  bytes 0-1/10\r\n\r\nab\r\n", "--String_separator"),
            ("", "--String_separator\r\nContent-Type:  text/plain\r\nContent-Range:  bytes 0-1/10\r\n\r\nab\r\n", "--String_separator"),
            ("", "--XB\r\nContent-Disposition: form-data; name=\"a\"\r\n\r\nv\r\n", "--XB--\r\n"), ("--XB\r\nContent-Disposition: form-data; name=\"a\"\r\n\r\n", "line\r\n", "--XB--\r\n"), ("--XB\r\n", "H: v\r\n", "\r\nv\r\n--XB--"),
            ("[", "1,", "1]"), ("{", "\"k\": 1,\r\n", "\"z\": 2}"), ("", "port = 1\n", ""), ("[cors]\n", "allow_all = true # c\n", ""), ("", "a", ""), ("\"k\": \"", "x", "\""), ("/", "[[a]]/", ""), ("bytes=", "0-1,", "2-3"), ("", "Zm9v", ""),
        ]), prop_oneof![3 => 1u32..100, 2 => 100u32..2500, 1 => 2500u32..=max_lines])
        .prop_map(|((h, l, t), count)| Input::Lines { head: h.to_string(), line: l.to_string(), count, tail: t.to_string() });
    // json-array-objects parses items through the harness's own recursive struct (README pattern: one call level per nesting level is the caller's code): no deep nesting there
    let nest_weight = if entry == "json-array-objects" { 0 } else { 1 };
    (prop_oneof![10 => doc.boxed(), 3 => raw.boxed(), nest_weight => nest.boxed(), 1 => lines.boxed()], prop::sample::select(auxs))
        .prop_map(move |(input, aux)| Case { entry: entry.to_string(), input, aux: aux.to_string() })
}

pub fn run(ctx: &Ctx) {
    let per_entry = ctx.scale(5_000, 200_000);
    // entry points are spread over the workers; every worker takes a share of every entry point's cases
    for entry in ENTRIES.iter() {
        ctx.prop(entry, ctx.share(per_entry), case_strategy(entry, ctx.tier == Tier::Thorough), |c| eval(ctx, c));
    }
    // saved corpus (fuzzer findings): files named <entry>__<anything>
    ctx.set_section("corpus");
    let dir = std::path::PathBuf::from(crate::fw::verif_dir()).join("corpus").join("c20");
    let mut files: Vec<std::path::PathBuf> = std::fs::read_dir(&dir).map(|rd| rd.filter_map(|e| e.ok()).map(|e| e.path()).filter(|p| p.is_file()).collect()).unwrap_or_default();
    files.sort();
    for (i, p) in files.iter().enumerate() {
        if i as u32 % ctx.workers != ctx.worker { continue; }
        let name = p.file_name().unwrap().to_string_lossy().to_string();
        let entry = name.split("__").next().unwrap_or("").to_string();
        if !ENTRIES.contains(&entry.as_str()) { continue; }
        let bytes = match std::fs::read(p) { Ok(b) => b, Err(_) => continue };
        for aux in aux_for(&entry) {
            let c = Case { entry: entry.clone(), input: Input::Raw(Bytes(bytes.clone())), aux: aux.to_string() };
            ctx.inflight_ser(&c);
            let v = eval(ctx, &c);
            let cc = c.clone();
            ctx.count(&v, hash64(&(name.clone(), aux)), || serde_json::to_value(&cc).unwrap());
        }
    }
    // corpus/c20/*.pack: inputs of the coverage-guided campaigns in the fuzz target's format (byte 0 entry point, byte 1 auxiliary argument, rest input)
    super::c04::replay_corpus_with(ctx, "c20-packs", |ctx, data| {
        if data.len() < 2 { return (Verdict::pass(false), Value::Null); }
        let entry = entry_for_byte(data[0]);
        let auxs = aux_for(entry);
        let c = Case { entry: entry.to_string(), input: Input::Raw(Bytes(data[2..].to_vec())), aux: auxs[data[1] as usize % auxs.len()].to_string() };
        (eval(ctx, &c), serde_json::to_value(&c).unwrap_or(Value::Null))
    });
    ctx.clear_inflight();
}

pub fn replay(ctx: &Ctx, _section: &str, case: &Value) -> Verdict {
    match serde_json::from_value::<Case>(case.clone()) { Ok(c) => eval(ctx, &c), Err(e) => Verdict::fail("replay-unreadable", e.to_string()) }
}
