//! C05 — responses are well-formed, self-consistent HTTP and delivered in full.
use super::common::*;
use crate::fw::greq::{LineClass, FIXED_PATHS};
use crate::fw::inproc::AppKind;
use crate::fw::mock::{Transport, WriteScript};
use crate::fw::util::Bytes;
use crate::fw::{mhttp, Ctx, RunSpec, Tier, Verdict};
use proptest::prelude::*;
use serde::{Deserialize, Serialize};
use serde_json::Value;

pub fn spec(tier: Tier) -> RunSpec {
    let mut s = spec0(tier);
    // Server::process on a mock transport (whose read reports end of stream) returns within microseconds; a call that has not
    // returned after 60 s never will - the worker that runs it would be lost for good
    s.case_limit_s = 60;
    s.hang_is_violation = true;
    s
}

fn spec0(tier: Tier) -> RunSpec {
    super::base_spec(
        8,
        "section responses: the G-REQ campaign (valid and malformed requests, all nine methods, hostile Origin / Access-Control-Request-* / Range / Content-Type values with CR, LF, NUL, colons) on both entry points; \
every emitted response must parse with M-HTTP (status line, registered code with its reason phrase, name: value lines without bare CR/LF, blank line, body), Content-Length == body bytes (empty body for HEAD/OPTIONS, 1xx/204/304), \
no framing header twice, no header line (with a name rws is not known to emit) whose text comes from a request header value (reflected text cannot add or split lines). \
section transport: a pool of requests x write scripts (every chunk size 1..64 and 100/1000/4096, a two-chunk boundary at every byte offset of the head, random chunk sequences, Ok(0), write error after k bytes, flush error); \
oracle = bytes accepted by the transport equal the response produced on an unlimited transport modulo the timestamp value (prefix for write errors), and no panic. \
section paused-reader: a client that stops reading for 16 s (thorough: up to 91 s) after the head of a 32 MiB response and must still get all of it. section transport-binary: the release binary over loopback with a client that reads slowly (default or 64-256 KiB receive buffer - smaller ones make loopback TCP itself stall on window updates -, reads of 1..65536 bytes and pauses for the first 2000 reads) - full 3 MiB bodies, single ranges, up to 1500-part multipart responses; the bytes that arrive must equal the in-process response modulo the timestamp. \
Non-trivial = error-path response, HEAD/OPTIONS, reflected hostile value, or a short-write pattern with >= 2 chunks; distinct by case.",
        &["control characters other than CR/LF echoed inside a header value are recorded as a note, not a violation", "a non-zero Content-Length on a bodiless (HEAD/OPTIONS/204) response is judged by the no-body rule only"],
        if tier == Tier::Quick { 900 } else { 14400 },
    )
}

pub fn mask_timestamp(b: &[u8]) -> Vec<u8> {
    let key = b"Date-Unix-Epoch-Nanos: ";
    let mut out = Vec::with_capacity(b.len());
    let mut i = 0;
    while i < b.len() {
        if b[i..].starts_with(key) {
            out.extend_from_slice(key);
            i += key.len();
            while i < b.len() && b[i].is_ascii_digit() { i += 1; }
            out.push(b'T');
        } else { out.push(b[i]); i += 1; }
    }
    out
}

pub fn eval_response(ctx: &Ctx, c: &ServerCase) -> Verdict {
    let e = examine(c);
    let mut problems: Vec<(String, String)> = vec![];
    let mut classes: Vec<&'static str> = vec![];
    let mut nontrivial = false;
    match &e.out.result {
        Err((msg, loc)) => {
            if c.legacy { problems.push((format!("panic:legacy:{}:{}", panic_module(loc), msg), format!("panic at {}; {}", loc, describe(&e)))); }
            else { classes.push("panicked-(reported-under-C04)"); }
        }
        Ok(_) => match &e.resp {
            Err(p) => {
                if e.out.out.is_empty() { classes.push("no-bytes-(reported-under-C04)"); }
                else { problems.push((p.sig.clone(), format!("{}; {}", p.detail, describe(&e)))); }
            }
            Ok(r) => {
                let (ps, notes) = mhttp::wellformed(r, e.no_body_by_method.unwrap_or(false));
                for p in ps {
                    if e.no_body_by_method.is_none() && (p.sig == "content-length-differs-from-body" || p.sig == "body-on-head-or-options") { continue; }
                    problems.push((p.sig.clone(), format!("{}; {}", p.detail, describe(&e))));
                }
                for n in notes { ctx.note(n); }
                // a response header line that rws is not known to emit and whose text ("name: value") the client sent inside a header *value*
                // (after a bare CR or LF, i.e. not as a header line of its own) was added by reflected text
                for (n, v) in r.headers.iter().filter(|(n, _)| !mhttp::SERVER_VOCABULARY.iter().any(|k| k.eq_ignore_ascii_case(n))) {
                    let line = format!("{}: {}", n, v);
                    let injected = c.req.base.headers.iter().any(|(_, hv)| crate::fw::util::contains_sub(&hv.0, line.as_bytes()));
                    if injected { problems.push(("header-line-added-by-reflected-text".to_string(), format!("response header line {:?} is text from a request header value; {}", line, describe(&e)))); }
                }
                if r.status >= 400 { classes.push("error-path-response"); nontrivial = true; }
                if e.no_body_by_method == Some(true) { classes.push("head-or-options"); nontrivial = true; }
                let reflected = r.headers.iter().any(|(n, v)| n.starts_with("Access-Control-") && !v.is_empty());
                if reflected { classes.push("reflected-value"); }
                let hostile_reflect = c.req.base.headers.iter().any(|(n, v)| (n.eq_ignore_ascii_case("origin") || n.to_lowercase().starts_with("access-control-request")) && v.0.iter().any(|b| *b < 0x20 || *b == b':' || *b >= 0x7f));
                if reflected && hostile_reflect { classes.push("reflected-hostile-value"); nontrivial = true; }
            }
        },
    }
    if c.legacy { classes.push("legacy-entry"); }
    if let LineClass::MustReject(_) = e.line { classes.push("unparseable-request"); }
    ctx.judge(problems, nontrivial, classes)
}

#[derive(Clone, Debug, Serialize, Deserialize)]
pub struct TransportCase { pub request: Bytes, pub script: WriteScript, pub flush_err: bool, pub read_err: bool, pub legacy: bool }

fn request_pool() -> impl Strategy<Value = Bytes> {
    prop_oneof![
        6 => prop::sample::select(FIXED_PATHS.to_vec()).prop_map(|p| Bytes(format!("GET {} HTTP/1.1\r\nHost: localhost\r\n\r\n", p).into_bytes())),
        1 => prop::sample::select(FIXED_PATHS.to_vec()).prop_map(|p| Bytes(format!("HEAD {} HTTP/1.1\r\nHost: localhost\r\nOrigin: https://o.example\r\n\r\n", p).into_bytes())),
        1 => Just(Bytes(b"GET /a.txt HTTP/1.1\r\nRange: bytes=2-5\r\n\r\n".to_vec())),
        1 => Just(Bytes(b"GET /big.bin HTTP/1.1\r\nRange: bytes=0-99, 4000-4100,69990-69999\r\n\r\n".to_vec())),
        1 => Just(Bytes(b"GET /a.txt HTTP/1.1\r\nRange: bytes=20-30\r\n\r\n".to_vec())),
        1 => Just(Bytes(b"garbage\r\n\r\n".to_vec())),
        1 => Just(Bytes(b"OPTIONS /a.txt HTTP/1.1\r\nOrigin: https://o.example\r\nAccess-Control-Request-Method: PUT\r\n\r\n".to_vec())),
        1 => Just(Bytes(b"POST /form-url-encoded-enctype-post-method HTTP/1.1\r\nContent-Type: application/x-www-form-urlencoded\r\n\r\nfield=value+1".to_vec())),
        1 => Just(Bytes(vec![])),
    ]
}

fn script_strategy() -> impl Strategy<Value = WriteScript> {
    prop_oneof![
        4 => (1usize..=64).prop_map(WriteScript::Chunk),
        1 => prop::sample::select(vec![100usize, 1000, 4096]).prop_map(WriteScript::Chunk),
        5 => (1usize..700).prop_map(|k| WriteScript::Chunks(vec![k])),
        3 => proptest::collection::vec(1usize..2000, 1..12).prop_map(WriteScript::Chunks),
        1 => Just(WriteScript::Zero),
        2 => (0usize..900).prop_map(WriteScript::ErrAfter),
        1 => Just(WriteScript::Unlimited),
    ]
}

pub fn eval_transport(ctx: &Ctx, c: &TransportCase) -> Verdict {
    let reference = examine_bytes(c.request.0.clone(), 10000, AppKind::Real, c.legacy, Transport { write: WriteScript::Unlimited, read_err: c.read_err, flush_err: false });
    let full = match (&reference.out.result, c.legacy) { (Err(_), _) => return Verdict::passc(false, vec!["reference-run-panicked-(C04)"]), _ => mask_timestamp(&reference.out.out) };
    let t = Transport { write: c.script.clone(), read_err: c.read_err, flush_err: c.flush_err };
    let run = examine_bytes(c.request.0.clone(), 10000, AppKind::Real, c.legacy, t);
    let got = mask_timestamp(&run.out.out);
    let mut problems = vec![];
    let mut classes = vec![];
    if let Err((msg, loc)) = &run.out.result {
        let what = if c.flush_err { "flush-error" } else { match c.script { WriteScript::ErrAfter(_) => "write-error", WriteScript::Zero => "write-zero", _ => "short-write" } };
        problems.push((format!("panic-on-{}:{}:{}", what, panic_module(loc), msg), format!("panic at {} with transport {:?} flush_err={} read_err={}; request {}", loc, c.script, c.flush_err, c.read_err, c.request.escaped())));
    }
    match &c.script {
        WriteScript::ErrAfter(k) => {
            classes.push("write-error-at-byte-k");
            if !full.starts_with(&got) || got.len() > *k.max(&0) && got.len() > full.len() { problems.push(("write-error-bytes-not-a-prefix".into(), format!("accepted {} bytes are not a prefix of the {}-byte response", got.len(), full.len()))); }
        }
        WriteScript::Zero => { classes.push("write-returns-zero"); }
        _ => {
            if run.out.result.is_ok() && got != full {
                problems.push(("response-not-delivered-in-full".into(), format!("transport {:?} accepted {} of {} response bytes in {} write call(s); request {}", c.script, got.len(), full.len(), run.out.write_calls, c.request.escaped())));
            }
        }
    }
    if c.flush_err { classes.push("flush-error"); }
    if c.read_err { classes.push("read-error"); }
    let chunks = match &c.script { WriteScript::Chunk(k) => (full.len() + k - 1) / (*k).max(1), WriteScript::Chunks(v) => { let mut rem = full.len(); let mut n = 0; for k in v { if rem == 0 { break; } rem = rem.saturating_sub(*k); n += 1; } if rem > 0 { n += 1; } n } _ => 1 };
    if chunks >= 2 { classes.push("two-or-more-chunks"); }
    if let WriteScript::Chunks(v) = &c.script { if v.len() == 1 && v[0] < reference.resp.as_ref().map(|r| r.head_len).unwrap_or(0) { classes.push("boundary-inside-head"); } }
    ctx.judge(problems, chunks >= 2 || c.flush_err || matches!(c.script, WriteScript::ErrAfter(_) | WriteScript::Zero), classes)
}

/// The same differential over real TCP: the release binary serves the fixed docroot, the client reads slowly through a small receive
/// buffer so that the server's socket buffer fills and its writes are accepted in pieces by the kernel.
#[derive(Clone, Debug, Serialize, Deserialize)]
pub struct NetCase { pub request: Bytes, pub rcvbuf: u32, pub read_chunk: u32, pub pause_every: u32, pub pause_ms: u8, pub first_pause_ms: u8,
    /// the part of the request beyond the server's 10000-byte buffer is sent in 256-byte pieces, one per millisecond (at most 40 pieces: far inside the 2 s the server waits before it closes), while the response is being read
    #[serde(default)] pub trickle: bool }

fn net_case_strategy() -> impl Strategy<Value = NetCase> {
    let req = prop_oneof![
        4 => Just(Bytes(b"GET /huge.bin HTTP/1.1\r\nHost: localhost\r\n\r\n".to_vec())),
        2 => (0u32..3_000_000, 1u32..3_000_000).prop_map(|(a, n)| Bytes(format!("GET /huge.bin HTTP/1.1\r\nRange: bytes={}-{}\r\n\r\n", a, a.saturating_add(n)).into_bytes())),
        2 => (1usize..1500, 0u32..3_000_000).prop_map(|(k, at)| Bytes(format!("GET /huge.bin HTTP/1.1\r\nRange: bytes={}\r\n\r\n", (0..k).map(|j| { let a = (at as usize + j * 1999) % (3 << 20); format!("{}-{}", a, (a + 600).min((3 << 20) - 1)) }).collect::<Vec<_>>().join(",")).into_bytes())),
        2 => Just(Bytes(b"GET /big.bin HTTP/1.1\r\nHost: localhost\r\n\r\n".to_vec())),
        // a complete head followed by a body that is longer than the server's buffer (the rest is still on its way when the response is written)
        3 => prop_oneof![3 => 10_100usize..20_000, 2 => 20_000usize..150_000, 1 => 150_000usize..700_000].prop_map(|n| { let mut v = b"GET /huge.bin HTTP/1.1\r\nHost: localhost\r\nContent-Type: application/octet-stream\r\n\r\n".to_vec(); while v.len() < n { v.push(b'a' + (v.len() % 26) as u8); } Bytes(v) }),
        1 => request_pool(),
    ];
    (req, prop::sample::select(vec![65536u32, 262144, 0, 0]), prop::sample::select(vec![1u32, 7, 100, 1000, 4096, 65536]), prop::sample::select(vec![0u32, 1, 16, 256]), 0u8..4, prop::sample::select(vec![0u8, 5, 40]), any::<bool>())
        .prop_map(|(request, rcvbuf, read_chunk, pause_every, pause_ms, first_pause_ms, trickle)| NetCase { request, rcvbuf, read_chunk, pause_every, pause_ms, first_pause_ms, trickle })
}

pub fn eval_net(ctx: &Ctx, srv: &crate::fw::net::Server, c: &NetCase) -> Verdict {
    use std::io::{Read, Write};
    use std::os::unix::io::AsRawFd;
    let reference = examine_bytes(c.request.0.clone(), 10000, AppKind::Real, false, Transport::default());
    if reference.out.result.is_err() { return Verdict::passc(false, vec!["reference-run-panicked-(C04)"]); }
    let full = mask_timestamp(&reference.out.out);
    let mut s = match srv.connect() { Ok(s) => s, Err(e) => { ctx.inconclusive(&format!("connect: {}", e)); return Verdict::Discard; } };
    if c.rcvbuf > 0 { let v: libc::c_int = c.rcvbuf as libc::c_int; unsafe { libc::setsockopt(s.as_raw_fd(), libc::SOL_SOCKET, libc::SO_RCVBUF, &v as *const _ as *const libc::c_void, std::mem::size_of::<libc::c_int>() as libc::socklen_t); } }
    let trickled = c.trickle && c.request.0.len() > 10_050 && c.request.0.len() <= 20_300;
    let long_tail = !trickled && c.request.0.len() > 20_300;
    if long_tail {
        // far more than the server's buffer and the socket buffers hold: the tail is written by a second thread while the response is being read (a client that only writes would wait for a server that only writes)
        if s.write_all(&c.request.0[..10_050]).is_err() { ctx.inconclusive("write to the server failed"); return Verdict::Discard; }
        if let Ok(mut w) = s.try_clone() { let rest = c.request.0[10_050..].to_vec(); std::thread::spawn(move || { let _ = w.write_all(&rest); }); }
    } else if trickled {
        if s.write_all(&c.request.0[..10_050]).is_err() { ctx.inconclusive("write to the server failed"); return Verdict::Discard; }
        if let Ok(mut w) = s.try_clone() { let rest = c.request.0[10_050..].to_vec(); std::thread::spawn(move || { for piece in rest.chunks(256) { if w.write_all(piece).is_err() { break; } std::thread::sleep(std::time::Duration::from_millis(1)); } }); }
    } else if s.write_all(&c.request.0).is_err() { ctx.inconclusive("write to the server failed"); return Verdict::Discard; }
    if c.request.0.is_empty() { let _ = s.shutdown(std::net::Shutdown::Write); }
    std::thread::sleep(std::time::Duration::from_millis(c.first_pause_ms as u64));
    let deadline = std::time::Instant::now() + std::time::Duration::from_secs(30);
    let mut got: Vec<u8> = Vec::with_capacity(full.len() + 64);
    // bounded work: the slow pattern (small reads, pauses) covers the first 2000 reads / 200 pauses, the rest is drained in 64 KiB reads
    let mut buf = vec![0u8; 65536];
    let mut pauses = 0u32;
    let mut reads = 0u64;
    let closed = loop {
        let left = deadline.saturating_duration_since(std::time::Instant::now());
        if left.is_zero() { break false; }
        s.set_read_timeout(Some(left)).ok();
        let want = if reads < 2000 { (c.read_chunk.max(1) as usize).min(buf.len()) } else { buf.len() };
        match s.read(&mut buf[..want]) {
            Ok(0) => break true,
            Ok(n) => { got.extend_from_slice(&buf[..n]); reads += 1; if c.pause_every > 0 && reads % c.pause_every as u64 == 0 && c.pause_ms > 0 && pauses < 200 { pauses += 1; std::thread::sleep(std::time::Duration::from_millis(c.pause_ms as u64)); } }
            Err(e) if e.kind() == std::io::ErrorKind::Interrupted => continue,
            Err(e) if e.kind() == std::io::ErrorKind::WouldBlock || e.kind() == std::io::ErrorKind::TimedOut => break false,
            Err(_) => break true, // reset after the data: judged by the bytes
        }
    };
    if !closed { ctx.inconclusive(&format!("the response was not complete after 30 s ({} of {} bytes read)", got.len(), full.len())); return Verdict::Discard; }
    let got = mask_timestamp(&got);
    let mut problems = vec![];
    if got != full {
        let common = got.iter().zip(full.iter()).take_while(|(a, b)| a == b).count();
        problems.push(("response-not-delivered-in-full".into(), format!("over TCP (receive buffer {}, reads of {} bytes) {} bytes arrived where the response has {}; first difference at byte {}; request {}", c.rcvbuf, c.read_chunk, got.len(), full.len(), common, crate::fw::util::lossy(&c.request.0, 80))));
    }
    let mut classes = vec!["real-tcp"];
    if full.len() > 1 << 20 { classes.push("response-over-1-MiB"); }
    if c.read_chunk <= 100 { classes.push("small-reads"); }
    if trickled { classes.push("request-tail-trickled-while-the-response-is-read"); }
    if long_tail { classes.push("request-tens-or-hundreds-of-KB-beyond-the-buffer"); }
    ctx.judge(problems, full.len() > 65536, classes)
}

/// Ok(None): the whole body arrived. Ok(Some(detail)): the connection ended early. Err: the probe itself could not be carried out.
pub fn paused_reader_probe(pause_s: u64) -> Result<Option<String>, String> {
    use std::io::{Read, Write};
    let dir = crate::fw::scratch_base().join(format!("rwsv-c05-paused-{}-{}", std::process::id(), pause_s));
    let _ = std::fs::remove_dir_all(&dir);
    std::fs::create_dir_all(&dir).map_err(|e| e.to_string())?;
    let size: u64 = 32 << 20;
    std::fs::File::create(dir.join("giant.bin")).and_then(|f| f.set_len(size)).map_err(|e| e.to_string())?;
    let result = (|| {
        let srv = crate::fw::net::Server::start(&crate::fw::net::ServerOpts::new(&dir, 1)).map_err(|e| format!("server start: {}", e))?;
        let mut s = srv.connect().map_err(|e| format!("connect: {}", e))?;
        s.write_all(b"GET /giant.bin HTTP/1.1\r\nHost: localhost\r\n\r\n").map_err(|e| e.to_string())?;
        let mut got: Vec<u8> = Vec::with_capacity(1 << 20);
        let mut buf = vec![0u8; 65536];
        s.set_read_timeout(Some(std::time::Duration::from_secs(20))).ok();
        // the head and a little of the body
        while crate::fw::util::find_sub(&got, b"\r\n\r\n").is_none() { match s.read(&mut buf[..4096]) { Ok(0) => return Err("connection closed before the head was complete".to_string()), Ok(n) => got.extend_from_slice(&buf[..n]), Err(e) => return Err(format!("reading the head: {}", e)) } }
        let head_end = crate::fw::util::find_sub(&got, b"\r\n\r\n").unwrap() + 4;
        let head = String::from_utf8_lossy(&got[..head_end]).to_string();
        let declared: u64 = head.lines().find_map(|l| l.strip_prefix("Content-Length: ")).and_then(|v| v.trim().parse().ok()).ok_or_else(|| format!("no Content-Length in {:?}", head))?;
        std::thread::sleep(std::time::Duration::from_secs(pause_s));
        let mut body = (got.len() - head_end) as u64;
        let deadline = std::time::Instant::now() + std::time::Duration::from_secs(90);
        let ended = loop {
            if std::time::Instant::now() > deadline { return Err(format!("the rest did not arrive within 90 s after the pause ({} of {} body bytes)", body, declared)); }
            match s.read(&mut buf) { Ok(0) => break "closed".to_string(), Ok(n) => body += n as u64, Err(e) if e.kind() == std::io::ErrorKind::Interrupted => continue, Err(e) if e.kind() == std::io::ErrorKind::WouldBlock || e.kind() == std::io::ErrorKind::TimedOut => return Err(format!("no data for 20 s after the pause ({} of {} body bytes)", body, declared)), Err(e) => break format!("reset ({})", e) }
        };
        if declared != size { return Ok(Some(format!("Content-Length {} for a {}-byte file", declared, size))); }
        Ok(if body == declared { None } else { Some(format!("{} of {} body bytes arrived, then the connection was {}", body, declared, ended)) })
    })();
    let _ = std::fs::remove_dir_all(&dir);
    result
}

pub fn run(ctx: &Ctx) {
    crate::fw::inproc::init_env();
    let _tree = match fixed_docroot() { Ok(t) => t, Err(e) => { ctx.inconclusive(&format!("docroot: {}", e)); return; } };
    super::common::binary_begin(ctx, &_tree.root);
    ctx.prop("responses", ctx.share(ctx.scale(24_000, 2_000_000)), server_case_strategy(true), |c| eval_response(ctx, c));
    super::common::binary_end(ctx);
    let ts = (request_pool(), script_strategy(), proptest::bool::weighted(0.1), proptest::bool::weighted(0.05), proptest::bool::weighted(0.2))
        .prop_map(|(request, script, flush_err, read_err, legacy)| TransportCase { request, script, flush_err, read_err, legacy });
    ctx.prop("transport", ctx.share(ctx.scale(24_000, 1_000_000)), ts, |c| eval_transport(ctx, c));
    // exhaustive small sub-space: every chunk size 1..=64 and a boundary at every byte of the head, for three requests
    ctx.set_section("transport-enumerated");
    if ctx.worker == 0 {
        for req in [&b"GET /a.txt HTTP/1.1\r\nHost: localhost\r\n\r\n"[..], &b"GET /missing HTTP/1.1\r\n\r\n"[..], &b"garbage\r\n\r\n"[..]] {
            let head_len = examine_bytes(req.to_vec(), 10000, AppKind::Real, false, Transport::default()).resp.map(|r| r.head_len).unwrap_or(600);
            let mut scripts: Vec<WriteScript> = (1..=64).map(WriteScript::Chunk).collect();
            scripts.extend((1..=head_len).map(|k| WriteScript::Chunks(vec![k])));
            for s in scripts {
                let c = TransportCase { request: Bytes(req.to_vec()), script: s, flush_err: false, read_err: false, legacy: false };
                let v = eval_transport(ctx, &c);
                let cc = c.clone();
                if ctx.count(&v, crate::fw::hash64(&format!("{:?}", c)), || serde_json::to_value(&cc).unwrap()) { break; }
            }
        }
    }
    // a reader that stops reading for a long while in the middle of a response far larger than the socket buffers (32 MiB, a sparse file): the rest must
    // still arrive. One probe per native worker beside the other cases (quick: 16 s on worker 0; thorough: 16 / 31 / 61 / 91 s on workers 0..3)
    let pause_s: Option<u64> = if ctx.tier == Tier::Thorough { [16u64, 31, 61, 91].get(ctx.worker as usize).copied() } else if ctx.worker == 0 { Some(16) } else { None };
    let probe = pause_s.map(|p| std::thread::spawn(move || (p, paused_reader_probe(p))));
    match crate::fw::net::Server::start(&crate::fw::net::ServerOpts::new(&_tree.root, 2)) {
        Err(e) => ctx.inconclusive(&format!("real binary did not start: {}", e)),
        Ok(srv) => ctx.prop("transport-binary", ctx.share(ctx.scale(160, 6000)), net_case_strategy(), |c| eval_net(ctx, &srv, c)),
    }
    if let Some(h) = probe {
        ctx.set_section("paused-reader");
        match h.join() {
            Ok((p, Ok(None))) => { let v = Verdict::passc(true, vec!["reader-paused-for-many-seconds-mid-response"]); ctx.count(&v, crate::fw::hash64(&("paused-reader", p)), || serde_json::json!({"pause_s": p})); }
            Ok((p, Ok(Some(detail)))) => { let v = ctx.judge(vec![("response-not-delivered-in-full".to_string(), format!("reader paused for {} s after the head of a 32 MiB response: {}", p, detail))], true, vec!["reader-paused-for-many-seconds-mid-response"]); ctx.count(&v, crate::fw::hash64(&("paused-reader", p)), || serde_json::json!({"pause_s": p})); }
            Ok((_, Err(e))) => ctx.inconclusive(&format!("paused-reader probe: {}", e)),
            Err(_) => ctx.inconclusive("paused-reader probe thread panicked"),
        }
    }
    std::env::set_current_dir("/").ok();
}

pub fn replay(ctx: &Ctx, section: &str, case: &Value) -> Verdict {
    crate::fw::inproc::init_env();
    let _tree = match fixed_docroot() { Ok(t) => t, Err(e) => return Verdict::fail("replay-docroot-failed", e.to_string()) };
    if super::common::replay_wants_binary(case) { super::common::binary_begin(ctx, &_tree.root); }
    if section == "transport-binary" {
        let srv = match crate::fw::net::Server::start(&crate::fw::net::ServerOpts::new(&_tree.root, 2)) { Ok(s) => s, Err(e) => return Verdict::fail("replay-binary-did-not-start", e) };
        return match serde_json::from_value::<NetCase>(case.clone()) { Ok(c) => eval_net(ctx, &srv, &c), Err(e) => Verdict::fail("replay-unreadable", e.to_string()) };
    }
    if section.starts_with("transport") {
        return match serde_json::from_value::<TransportCase>(case.clone()) { Ok(c) => eval_transport(ctx, &c), Err(e) => Verdict::fail("replay-unreadable", e.to_string()) };
    }
    match serde_json::from_value::<ServerCase>(case.clone()) { Ok(c) => eval_response(ctx, &c), Err(e) => Verdict::fail("replay-unreadable", e.to_string()) }
}
