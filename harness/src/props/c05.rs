//! C05 — responses are well-formed, self-consistent HTTP and delivered in full.
use super::common::*;
use crate::fw::greq::{LineClass, FIXED_PATHS};
use crate::fw::inproc::AppKind;
use crate::fw::mock::{Transport, WriteScript};
use crate::fw::util::Bytes;
use crate::fw::{mhttp, Ctx, RunSpec, Tier, Verdict};
use proptest::prelude::*;
use serde::{Deserialize, Serialize};
use serde_json::Value;

pub fn spec(tier: Tier) -> RunSpec {
    let mut s = spec0(tier);
    // Server::process on a mock transport (whose read reports end of stream) returns within microseconds; a call that has not
    // returned after 60 s never will - the worker that runs it would be lost for good
    s.case_limit_s = 60;
    s.hang_is_violation = true;
    s
}

fn spec0(tier: Tier) -> RunSpec {
    super::base_spec(
        8,
        "section responses: the G-REQ campaign (valid and malformed requests, all nine methods, hostile Origin / Access-Control-Request-* / Range / Content-Type values with CR, LF, NUL, colons) on both entry points; \
every emitted response must parse with M-HTTP (status line, registered code with its reason phrase, name: value lines without bare CR/LF, blank line, body), Content-Length == body bytes (empty body for HEAD/OPTIONS, 1xx/204/304), \
no framing header twice, no header line whose name is outside the server's vocabulary (reflected text cannot add or split lines). \
section transport: a pool of requests x write scripts (every chunk size 1..64 and 100/1000/4096, a two-chunk boundary at every byte offset of the head, random chunk sequences, Ok(0), write error after k bytes, flush error); \
oracle = bytes accepted by the transport equal the response produced on an unlimited transport modulo the timestamp value (prefix for write errors), and no panic. \
Non-trivial = error-path response, HEAD/OPTIONS, reflected hostile value, or a short-write pattern with >= 2 chunks; distinct by case.",
        &["control characters other than CR/LF echoed inside a header value are recorded as a note, not a violation", "a non-zero Content-Length on a bodiless (HEAD/OPTIONS/204) response is judged by the no-body rule only"],
        if tier == Tier::Quick { 900 } else { 14400 },
    )
}

pub fn mask_timestamp(b: &[u8]) -> Vec<u8> {
    let key = b"Date-Unix-Epoch-Nanos: ";
    let mut out = Vec::with_capacity(b.len());
    let mut i = 0;
    while i < b.len() {
        if b[i..].starts_with(key) {
            out.extend_from_slice(key);
            i += key.len();
            while i < b.len() && b[i].is_ascii_digit() { i += 1; }
            out.push(b'T');
        } else { out.push(b[i]); i += 1; }
    }
    out
}

pub fn eval_response(ctx: &Ctx, c: &ServerCase) -> Verdict {
    let e = examine(c);
    let mut problems: Vec<(String, String)> = vec![];
    let mut classes: Vec<&'static str> = vec![];
    let mut nontrivial = false;
    match &e.out.result {
        Err((msg, loc)) => {
            if c.legacy { problems.push((format!("panic:legacy:{}:{}", panic_module(loc), msg), format!("panic at {}; {}", loc, describe(&e)))); }
            else { classes.push("panicked-(reported-under-C04)"); }
        }
        Ok(_) => match &e.resp {
            Err(p) => {
                if e.out.out.is_empty() { classes.push("no-bytes-(reported-under-C04)"); }
                else { problems.push((p.sig.clone(), format!("{}; {}", p.detail, describe(&e)))); }
            }
            Ok(r) => {
                let (ps, notes) = mhttp::wellformed(r, e.no_body_by_method.unwrap_or(false));
                for p in ps {
                    if e.no_body_by_method.is_none() && (p.sig == "content-length-differs-from-body" || p.sig == "body-on-head-or-options") { continue; }
                    problems.push((p.sig.clone(), format!("{}; {}", p.detail, describe(&e))));
                }
                for n in notes { ctx.note(n); }
                if r.status >= 400 { classes.push("error-path-response"); nontrivial = true; }
                if e.no_body_by_method == Some(true) { classes.push("head-or-options"); nontrivial = true; }
                let reflected = r.headers.iter().any(|(n, v)| n.starts_with("Access-Control-") && !v.is_empty());
                if reflected { classes.push("reflected-value"); }
                let hostile_reflect = c.req.base.headers.iter().any(|(n, v)| (n.eq_ignore_ascii_case("origin") || n.to_lowercase().starts_with("access-control-request")) && v.0.iter().any(|b| *b < 0x20 || *b == b':' || *b >= 0x7f));
                if reflected && hostile_reflect { classes.push("reflected-hostile-value"); nontrivial = true; }
            }
        },
    }
    if c.legacy { classes.push("legacy-entry"); }
    if let LineClass::MustReject(_) = e.line { classes.push("unparseable-request"); }
    ctx.judge(problems, nontrivial, classes)
}

#[derive(Clone, Debug, Serialize, Deserialize)]
pub struct TransportCase { pub request: Bytes, pub script: WriteScript, pub flush_err: bool, pub read_err: bool, pub legacy: bool }

fn request_pool() -> impl Strategy<Value = Bytes> {
    prop_oneof![
        6 => prop::sample::select(FIXED_PATHS.to_vec()).prop_map(|p| Bytes(format!("GET {} HTTP/1.1\r\nHost: localhost\r\n\r\n", p).into_bytes())),
        1 => prop::sample::select(FIXED_PATHS.to_vec()).prop_map(|p| Bytes(format!("HEAD {} HTTP/1.1\r\nHost: localhost\r\nOrigin: https://o.example\r\n\r\n", p).into_bytes())),
        1 => Just(Bytes(b"GET /a.txt HTTP/1.1\r\nRange: bytes=2-5\r\n\r\n".to_vec())),
        1 => Just(Bytes(b"GET /big.bin HTTP/1.1\r\nRange: bytes=0-99, 4000-4100,69990-69999\r\n\r\n".to_vec())),
        1 => Just(Bytes(b"GET /a.txt HTTP/1.1\r\nRange: bytes=20-30\r\n\r\n".to_vec())),
        1 => Just(Bytes(b"garbage\r\n\r\n".to_vec())),
        1 => Just(Bytes(b"OPTIONS /a.txt HTTP/1.1\r\nOrigin: https://o.example\r\nAccess-Control-Request-Method: PUT\r\n\r\n".to_vec())),
        1 => Just(Bytes(b"POST /form-url-encoded-enctype-post-method HTTP/1.1\r\nContent-Type: application/x-www-form-urlencoded\r\n\r\nfield=value+1".to_vec())),
        1 => Just(Bytes(vec![])),
    ]
}

fn script_strategy() -> impl Strategy<Value = WriteScript> {
    prop_oneof![
        4 => (1usize..=64).prop_map(WriteScript::Chunk),
        1 => prop::sample::select(vec![100usize, 1000, 4096]).prop_map(WriteScript::Chunk),
        5 => (1usize..700).prop_map(|k| WriteScript::Chunks(vec![k])),
        3 => proptest::collection::vec(1usize..2000, 1..12).prop_map(WriteScript::Chunks),
        1 => Just(WriteScript::Zero),
        2 => (0usize..900).prop_map(WriteScript::ErrAfter),
        1 => Just(WriteScript::Unlimited),
    ]
}

pub fn eval_transport(ctx: &Ctx, c: &TransportCase) -> Verdict {
    let reference = examine_bytes(c.request.0.clone(), 10000, AppKind::Real, c.legacy, Transport { write: WriteScript::Unlimited, read_err: c.read_err, flush_err: false });
    let full = match (&reference.out.result, c.legacy) { (Err(_), _) => return Verdict::passc(false, vec!["reference-run-panicked-(C04)"]), _ => mask_timestamp(&reference.out.out) };
    let t = Transport { write: c.script.clone(), read_err: c.read_err, flush_err: c.flush_err };
    let run = examine_bytes(c.request.0.clone(), 10000, AppKind::Real, c.legacy, t);
    let got = mask_timestamp(&run.out.out);
    let mut problems = vec![];
    let mut classes = vec![];
    if let Err((msg, loc)) = &run.out.result {
        let what = if c.flush_err { "flush-error" } else { match c.script { WriteScript::ErrAfter(_) => "write-error", WriteScript::Zero => "write-zero", _ => "short-write" } };
        problems.push((format!("panic-on-{}:{}:{}", what, panic_module(loc), msg), format!("panic at {} with transport {:?} flush_err={} read_err={}; request {}", loc, c.script, c.flush_err, c.read_err, c.request.escaped())));
    }
    match &c.script {
        WriteScript::ErrAfter(k) => {
            classes.push("write-error-at-byte-k");
            if !full.starts_with(&got) || got.len() > *k.max(&0) && got.len() > full.len() { problems.push(("write-error-bytes-not-a-prefix".into(), format!("accepted {} bytes are not a prefix of the {}-byte response", got.len(), full.len()))); }
        }
        WriteScript::Zero => { classes.push("write-returns-zero"); }
        _ => {
            if run.out.result.is_ok() && got != full {
                problems.push(("response-not-delivered-in-full".into(), format!("transport {:?} accepted {} of {} response bytes in {} write call(s); request {}", c.script, got.len(), full.len(), run.out.write_calls, c.request.escaped())));
            }
        }
    }
    if c.flush_err { classes.push("flush-error"); }
    if c.read_err { classes.push("read-error"); }
    let chunks = match &c.script { WriteScript::Chunk(k) => (full.len() + k - 1) / (*k).max(1), WriteScript::Chunks(v) => { let mut rem = full.len(); let mut n = 0; for k in v { if rem == 0 { break; } rem = rem.saturating_sub(*k); n += 1; } if rem > 0 { n += 1; } n } _ => 1 };
    if chunks >= 2 { classes.push("two-or-more-chunks"); }
    if let WriteScript::Chunks(v) = &c.script { if v.len() == 1 && v[0] < reference.resp.as_ref().map(|r| r.head_len).unwrap_or(0) { classes.push("boundary-inside-head"); } }
    ctx.judge(problems, chunks >= 2 || c.flush_err || matches!(c.script, WriteScript::ErrAfter(_) | WriteScript::Zero), classes)
}

pub fn run(ctx: &Ctx) {
    crate::fw::inproc::init_env();
    let _tree = match fixed_docroot() { Ok(t) => t, Err(e) => { ctx.inconclusive(&format!("docroot: {}", e)); return; } };
    ctx.prop("responses", ctx.share(ctx.scale(24_000, 2_000_000)), server_case_strategy(true), |c| eval_response(ctx, c));
    let ts = (request_pool(), script_strategy(), proptest::bool::weighted(0.1), proptest::bool::weighted(0.05), proptest::bool::weighted(0.2))
        .prop_map(|(request, script, flush_err, read_err, legacy)| TransportCase { request, script, flush_err, read_err, legacy });
    ctx.prop("transport", ctx.share(ctx.scale(24_000, 1_000_000)), ts, |c| eval_transport(ctx, c));
    // exhaustive small sub-space: every chunk size 1..=64 and a boundary at every byte of the head, for three requests
    ctx.set_section("transport-enumerated");
    if ctx.worker == 0 {
        for req in [&b"GET /a.txt HTTP/1.1\r\nHost: localhost\r\n\r\n"[..], &b"GET /missing HTTP/1.1\r\n\r\n"[..], &b"garbage\r\n\r\n"[..]] {
            let head_len = examine_bytes(req.to_vec(), 10000, AppKind::Real, false, Transport::default()).resp.map(|r| r.head_len).unwrap_or(600);
            let mut scripts: Vec<WriteScript> = (1..=64).map(WriteScript::Chunk).collect();
            scripts.extend((1..=head_len).map(|k| WriteScript::Chunks(vec![k])));
            for s in scripts {
                let c = TransportCase { request: Bytes(req.to_vec()), script: s, flush_err: false, read_err: false, legacy: false };
                let v = eval_transport(ctx, &c);
                let cc = c.clone();
                if ctx.count(&v, crate::fw::hash64(&format!("{:?}", c)), || serde_json::to_value(&cc).unwrap()) { break; }
            }
        }
    }
    std::env::set_current_dir("/").ok();
}

pub fn replay(ctx: &Ctx, section: &str, case: &Value) -> Verdict {
    crate::fw::inproc::init_env();
    let _tree = match fixed_docroot() { Ok(t) => t, Err(e) => return Verdict::fail("replay-docroot-failed", e.to_string()) };
    if section.starts_with("transport") {
        return match serde_json::from_value::<TransportCase>(case.clone()) { Ok(c) => eval_transport(ctx, &c), Err(e) => Verdict::fail("replay-unreadable", e.to_string()) };
    }
    match serde_json::from_value::<ServerCase>(case.clone()) { Ok(c) => eval_response(ctx, &c), Err(e) => Verdict::fail("replay-unreadable", e.to_string()) }
}
