//! C17 — form and query decoding returns the submitted fields.
use crate::body::form_urlencoded::FormUrlEncoded;
use crate::fw::inproc::{self, AppKind, Entry};
use crate::fw::mock::Transport;
use crate::fw::{catch, mhttp, Ctx, RunSpec, Tier, Verdict};
use crate::url::URL;
use proptest::prelude::*;
use serde::{Deserialize, Serialize};
use serde_json::Value;
use std::collections::{BTreeMap, HashMap};

pub fn spec(tier: Tier) -> RunSpec {
    super::base_spec(
        8,
        "maps of 0..20 distinct non-empty keys to non-empty values over printable Unicode scalar values (no controls; space separators other than U+0020 in interior positions): ASCII reserved characters & = % + ? # / : ; @ [ ] , ! $ ' ( ) * and space \
over-represented, '%' followed by two hex digits (both cases), by one, by non-hex, multi-byte and astral characters; encoded size below the request buffer. Four routes per map: URL::parse_query(URL::build_query(m)); \
FormUrlEncoded::parse(FormUrlEncoded::generate(m)); GET /form-get-method?<encoder output> and POST /form-url-encoded-enctype-post-method with the encoder output as body through Server::process, comparing the echoed 'key is value' lines as a multiset. \
Oracle: decoded map == m; echoed lines == {k is v}. Non-trivial = a field containing a reserved character, '%' or a non-ASCII character; distinct by map.",
        &["the encoder under test is the library's own (URL::build_query / FormUrlEncoded::generate)", "space separators other than U+0020 (U+00A0, U+3000 ...) are generated in interior positions only (the form-body parser trims the whole body); line and paragraph separators and control characters are outside 'printable text'"],
        if tier == Tier::Quick { 600 } else { 7200 },
    )
}

#[derive(Clone, Debug, Serialize, Deserialize)]
pub struct Case { pub fields: Vec<(String, String)> }

fn ch() -> impl Strategy<Value = String> {
    prop_oneof![
        10 => "[a-zA-Z0-9]",
        6 => prop::sample::select(vec!["&", "=", "%", "+", "?", "#", "/", ":", ";", "@", "[", "]", ",", "!", "$", "'", "(", ")", "*", " ", "\"", "-", "_", ".", "~", "<", ">", "{", "}", "|", "\\", "^", "`"]).prop_map(|s| s.to_string()),
        1 => ("[0-9A-Fa-f]", "[0-9A-Fa-f]").prop_map(|(a, b)| format!("%{}{}", a, b)),
        1 => prop::sample::select(vec!["%2", "%zz", "%%", "%25", "%20", "%3d", "%7E", "%41", "%0A", "%u00e9", "%2a", "%5b", "%e9", "%C3%A9", "%", "%g1"]).prop_map(|s| s.to_string()),
        2 => prop::sample::select(vec!["é", "ж", "中", "ß", "Ω", "€", "😀", "𝔘", "İ", "ñ", "日本"]).prop_map(|s| s.to_string()),
        1 => any::<char>().prop_filter("printable", |c| !c.is_control() && !c.is_whitespace() && (*c as u32) > 0x20).prop_map(|c| c.to_string()),
        // space separators other than U+0020 (no-break space, ideographic space, em space, narrow no-break space): printable text; kept away from
        // the two ends of a name or value by text() because the form-body parser trims the whole body
        1 => prop::sample::select(vec!["\u{a0}", "\u{3000}", "\u{2003}", "\u{202f}", "\u{1680}", "山田\u{3000}太郎"]).prop_map(|s| s.to_string()),
    ]
}

fn text() -> impl Strategy<Value = String> {
    prop_oneof![
        30 => proptest::collection::vec(ch(), 1..12).prop_map(|v| { let s = v.concat(); let f = s.chars().next().map(|c| c.is_whitespace() && c != ' ').unwrap_or(false); let l = s.chars().last().map(|c| c.is_whitespace() && c != ' ').unwrap_or(false); format!("{}{}{}", if f { "x" } else { "" }, s, if l { "x" } else { "" }) }),
        // long names / values (up to about 1 KiB so that a map still fits the request buffer), single- and multi-byte characters
        1 => crate::fw::greq::long_text().prop_map(|b| { let s: String = String::from_utf8_lossy(&b.0).chars().filter(|c| !c.is_whitespace() || *c == ' ').collect(); let s = s.trim().to_string(); let cut: String = s.chars().take(600).collect(); if cut.is_empty() { "x".to_string() } else { cut } }),
    ]
}

fn case_strategy() -> impl Strategy<Value = Case> {
    // one form in twelve carries a filler field that brings the encoded form close to the request buffer (7 to 9.8 KB of one- or three-byte characters):
    // "within the request buffer" includes request lines of eight and nine thousand bytes
    let filler = proptest::option::weighted(0.08, (7000usize..9800, prop::sample::select(vec!["a", "a", "é", "%"])).prop_map(|(n, unit)| { let per = match unit { "a" => 1, "%" => 3, _ => 6 }; unit.repeat((n / per).max(1)) }));
    (proptest::collection::vec((text(), text()), 0..20), filler).prop_map(|(v, filler)| {
        let mut seen = std::collections::HashSet::new();
        let mut fields: Vec<(String, String)> = v.into_iter().filter(|(k, _)| seen.insert(k.clone())).collect();
        if let Some(f) = filler { if seen.insert("filler".to_string()) { fields.truncate(3); fields.push(("filler".to_string(), f)); } }
        Case { fields }
    })
}

const LATE_CODES: [&str; 15] = ["26", "27", "28", "29", "2A", "2B", "2C", "2F", "3A", "3B", "3D", "3F", "40", "5B", "5D"];

/// the listed dependency defect: a literal '%' followed by a code that url-search-params decodes after "%25"
fn has_pct_then_late_code(s: &str) -> bool { LATE_CODES.iter().any(|c| s.contains(&format!("%{}", c))) }

fn reserved(s: &str) -> bool { s.chars().any(|c| "&=%+?#/:;@[],!$'()* ".contains(c) || !c.is_ascii()) }

pub fn eval(ctx: &Ctx, c: &Case) -> Verdict {
    let want: BTreeMap<String, String> = c.fields.iter().cloned().collect();
    let map: HashMap<String, String> = c.fields.iter().cloned().collect();
    let late = c.fields.iter().any(|(k, v)| has_pct_then_late_code(k) || has_pct_then_late_code(v));
    let mut problems: Vec<(String, String)> = vec![];
    // fields hit by the listed dependency defect, and the keys they may collide with after the double decoding
    let affected = |k: &str, v: &str| has_pct_then_late_code(k) || has_pct_then_late_code(v);
    let double_decoded: Vec<String> = c.fields.iter().filter(|(k, v)| affected(k, v)).map(|(k, _)| { let mut d = k.clone(); for code in LATE_CODES { let ch = char::from(u8::from_str_radix(code, 16).unwrap()); d = d.replace(&format!("%{}", code), &ch.to_string()); } d }).collect();
    let unaffected_ok = |got: &BTreeMap<String, String>| -> bool { c.fields.iter().filter(|(k, v)| !affected(k, v) && !double_decoded.contains(k)).all(|(k, v)| got.get(k) == Some(v)) };
    let sig_map = |s: &str, got: &BTreeMap<String, String>| if late && unaffected_ok(got) { "pct-then-late-code".to_string() } else { s.to_string() };
    let diff = |got: &BTreeMap<String, String>| -> String {
        let missing: Vec<_> = want.iter().filter(|(k, v)| got.get(*k) != Some(*v)).take(2).collect();
        let extra: Vec<_> = got.iter().filter(|(k, v)| want.get(*k) != Some(*v)).take(2).collect();
        format!("submitted-but-not-returned {:?}; returned-but-not-submitted {:?}", missing, extra)
    };
    // route 1: query
    let encoded = match catch(|| URL::build_query(map.clone())) { Ok(s) => s, Err((m, loc)) => return Verdict::fail(format!("panic:build_query:{}", m), loc) };
    match catch(|| URL::parse_query(&encoded)) {
        Err((m, loc)) => problems.push((format!("panic:parse_query:{}", m), loc)),
        Ok(got) => { let got: BTreeMap<String, String> = got.into_iter().collect(); if got != want { problems.push((sig_map("query-roundtrip-differs", &got), format!("encoded {:?}: {}", encoded, diff(&got)))); } }
    }
    // route 2: form body
    let body = match catch(|| FormUrlEncoded::generate(map.clone())) { Ok(s) => s, Err((m, loc)) => return Verdict::fail(format!("panic:FormUrlEncoded::generate:{}", m), loc) };
    match catch(|| FormUrlEncoded::parse(body.clone().into_bytes())) {
        Err((m, loc)) => problems.push((format!("panic:FormUrlEncoded::parse:{}", m), loc)),
        Ok(Err(e)) => problems.push(("form-body-rejected".into(), e)),
        Ok(Ok(got)) => { let got: BTreeMap<String, String> = got.into_iter().collect(); if got != want { problems.push((sig_map("form-body-roundtrip-differs", &got), format!("encoded {:?}: {}", body, diff(&got)))); } }
    }
    // routes 3 and 4: echo endpoints
    let mut want_lines: Vec<String> = c.fields.iter().map(|(k, v)| format!("{} is {}", k, v)).collect();
    want_lines.sort();
    if encoded.len() < 9990 {
        let reqs: Vec<(&str, Vec<u8>)> = vec![
            ("get-echo", format!("GET /form-get-method?{} HTTP/1.1\r\nHost: localhost\r\n\r\n", encoded).into_bytes()),
            ("post-echo", format!("POST /form-url-encoded-enctype-post-method HTTP/1.1\r\nHost: localhost\r\nContent-Type: application/x-www-form-urlencoded\r\nContent-Length: {}\r\n\r\n{}", body.len(), body).into_bytes()),
        ];
        for (route, req) in reqs {
            if route == "get-echo" && c.fields.is_empty() { continue; }
            // the whole request has to fit the server's 10000-byte buffer
            if req.len() > 9990 { continue; }
            let o = inproc::serve(&req, Transport::default(), 10000, AppKind::Real, Entry::Process);
            if let Err((m, loc)) = &o.result { problems.push((format!("panic:{}:{}", super::common::panic_module(loc), m), format!("{} panicked at {}", route, loc))); continue; }
            match mhttp::parse(&o.out) {
                Err(p) => problems.push((format!("unparseable-response:{}", p.sig), route.to_string())),
                Ok(r) => {
                    if r.status != 200 { problems.push((format!("{}-status-{}", route, r.status), format!("encoded {:?}", encoded))); continue; }
                    let text = String::from_utf8_lossy(&r.body).to_string();
                    let mut got: Vec<String> = text.split("\r\n").filter(|l| !l.is_empty()).map(|s| s.to_string()).collect();
                    got.sort();
                    // lines of the fields the listed defect does not touch must be echoed exactly
                    let unaffected_lines_ok = c.fields.iter().filter(|(k, v)| !affected(k, v) && !double_decoded.contains(k)).all(|(k, v)| got.contains(&format!("{} is {}", k, v))) && got.len() <= want_lines.len();
                    if got != want_lines { problems.push((if late && unaffected_lines_ok { "pct-then-late-code".to_string() } else { format!("{}-differs", route) }, format!("echoed {:?}, submitted {:?}", got.iter().take(3).collect::<Vec<_>>(), want_lines.iter().take(3).collect::<Vec<_>>()))); }
                }
            }
        }
    }
    let nontrivial = c.fields.iter().any(|(k, v)| reserved(k) || reserved(v));
    let mut classes = vec![];
    if late { classes.push("pct-then-late-code-(listed-dependency-defect)"); }
    if c.fields.iter().any(|(k, v)| k.contains('%') || v.contains('%')) { classes.push("contains-percent"); }
    if c.fields.iter().any(|(k, v)| !k.is_ascii() || !v.is_ascii()) { classes.push("non-ascii"); }
    if c.fields.iter().any(|(k, v)| k.contains(' ') || v.contains(' ') || k.contains('+') || v.contains('+')) { classes.push("space-or-plus"); }
    if c.fields.len() >= 10 { classes.push("ten-or-more-fields"); }
    // attribution to the listed finding is re-checked: the same case with the '%' of every "%<late code>" replaced by 'p' must pass;
    // if it fails too, that (different) failure is reported
    if late && problems.iter().any(|(sig, _)| sig == "pct-then-late-code") {
        let defuse = |s: &str| { let mut d = s.to_string(); while has_pct_then_late_code(&d) { for code in LATE_CODES { d = d.replace(&format!("%{}", code), &format!("p{}", code)); } } d };
        let mut seen = std::collections::HashSet::new();
        let copy = Case { fields: c.fields.iter().map(|(k, v)| (defuse(k), defuse(v))).filter(|(k, _)| seen.insert(k.clone())).collect() };
        if let Verdict::Fail { sig, detail } = eval(ctx, &copy) { return Verdict::fail(sig, format!("(on the copy of a pct-then-late-code case with those '%' replaced) {}", detail)); }
    }
    ctx.judge(problems, nontrivial, classes)
}

pub fn run(ctx: &Ctx) {
    crate::fw::inproc::init_env();
    let tree = match super::common::fixed_docroot() { Ok(t) => t, Err(e) => { ctx.inconclusive(&format!("docroot: {}", e)); return; } };
    ctx.prop("maps", ctx.share(ctx.scale(30_000, 1_500_000)), case_strategy(), |c| eval(ctx, c));
    let _ = std::env::set_current_dir("/");
    drop(tree);
}

pub fn replay(ctx: &Ctx, _section: &str, case: &Value) -> Verdict {
    crate::fw::inproc::init_env();
    let _tree = match super::common::fixed_docroot() { Ok(t) => t, Err(e) => return Verdict::fail("replay-docroot-failed", e.to_string()) };
    match serde_json::from_value::<Case>(case.clone()) { Ok(c) => eval(ctx, &c), Err(e) => Verdict::fail("replay-unreadable", e.to_string()) }
}
