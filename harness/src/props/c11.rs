//! C11 — cross-origin grants follow the configuration exactly.
use crate::cors::Cors;
use crate::fw::inproc::{self, AppKind, Entry};
use crate::fw::mock::Transport;
use crate::fw::{catch, mhttp, Ctx, RunSpec, Tier, Verdict};
use crate::header::Header;
use crate::request::Request;
use proptest::prelude::*;
use serde::{Deserialize, Serialize};
use serde_json::Value;

pub fn spec(tier: Tier) -> RunSpec {
    super::base_spec(
        8,
        "configurations (allow-all in {true,false,unset}; 0..4 origins from a pool in which prefixes, suffixes and substrings of one another occur; method / header / expose lists; credentials in {true,false,unset}; max-age) \
x Origin in {each configured origin, proper prefixes and suffixes, substrings, case variants, '', ',', two configured origins joined by ',', unrelated, absent} x methods incl. OPTIONS with/without preflight headers, \
through three routes: Cors::get_headers / Header::get_header_list with the RWS_CONFIG_CORS_* environment, the struct-based Cors::_process, and a full Server::process round trip. \
Oracle M-CORS: no Origin => no Access-Control-* header; switch on => Allow-Origin echoes Origin and Allow-Credentials is true; switch off => grants iff Origin equals one configured origin (list split on ','), \
then Allow-Origin = Origin, credentials header iff configured true, and on OPTIONS methods / headers / expose / max-age equal the configured values (header lists compared case-insensitively). \
The full-server route requests one of twelve targets (root, static file, directory index, .html fallback, 70 KB file, missing path, built-in asset, form endpoint, nested files): the grants must be the same on every route that answers. Origins include look-alikes (blank-padded, trailing slash / dot / port, other scheme, userinfo and path tricks, doubled, NUL, 'null'). A third of the cases hand the configuration to the server as an rws.config.toml text through the library's own reader instead of environment variables; an unconfigured credentials flag is an absent variable in two thirds of its cases (the start-up defaults then apply). Non-trivial = switch off and Origin is a near miss of a configured origin; distinct by (config, origin, method).",
        &["configured lists contain no blanks (the documented spelling)", "an unset switch means the default (on)"],
        if tier == Tier::Quick { 600 } else { 7200 },
    )
}

#[derive(Clone, Debug, Serialize, Deserialize)]
pub struct Case {
    pub allow_all: Option<bool>,
    pub origins: Vec<String>,
    pub methods: Vec<String>,
    pub headers: Vec<String>,
    pub expose: Vec<String>,
    pub credentials: Option<bool>,
    pub max_age: String,
    pub origin: Option<String>,
    /// index into TARGETS: the grants must be right on every route that answers (static files, directory index, .html fallback, built-in pages, form endpoints, 404)
    #[serde(default)] pub target: u8,
    pub method: String,
    pub preflight: bool,
    /// the configuration reaches the server through an rws.config.toml text (read by the library's own reader) instead of environment variables
    #[serde(default)] pub via_file: bool,
}

pub const POOL: [&str; 13] = ["https://my_app.example", "https://my-app.example", "https://x_1.example:8443", "https://a.example", "https://a.example.evil", "a.example", "https://a", "http://a.example", "https://b.example:8443", "https://foo.example", "https://bar.example", "null", "https://a.example:443"];

fn origin_strategy(origins: Vec<String>) -> impl Strategy<Value = Option<String>> {
    let o = if origins.is_empty() { vec!["https://a.example".to_string()] } else { origins.clone() };
    let o2 = o.clone(); let o3 = o.clone(); let o4 = o.clone(); let o5 = o.clone(); let o6 = o.clone();
    prop_oneof![
        4 => prop::sample::select(o).prop_map(Some),
        3 => (prop::sample::select(o2), any::<u16>()).prop_map(|(s, k)| { let n = s.chars().count(); let cut = 1 + crate::fw::util::pick_idx(k, n.max(2) - 1); Some(s.chars().take(cut).collect()) }),
        3 => (prop::sample::select(o3), any::<u16>()).prop_map(|(s, k)| { let n = s.chars().count(); let cut = 1 + crate::fw::util::pick_idx(k, n.max(2) - 1); Some(s.chars().skip(cut).collect()) }),
        2 => (prop::sample::select(o4), any::<u16>(), any::<u16>()).prop_map(|(s, a, b)| { let cs: Vec<char> = s.chars().collect(); let i = crate::fw::util::pick_idx(a, cs.len()); let j = i + crate::fw::util::pick_idx(b, cs.len() - i + 1); Some(cs[i..j].iter().collect()) }),
        2 => prop::sample::select(o5).prop_map(|s| Some(s.to_uppercase())),
        1 => prop::sample::select(o6).prop_map(|s| Some(format!("{}x", s))),
        // look-alikes of a configured origin: padded with blanks, trailing slash / dot / port, other scheme, userinfo and path tricks, repeated
        3 => (prop::sample::select(origins.iter().cloned().chain(std::iter::once("https://a.example".to_string())).collect::<Vec<_>>()), 0u8..14).prop_map(|(s, k)| Some(match k {
            0 => format!(" {}", s), 1 => format!("{} ", s), 2 => format!("\t{}", s), 3 => format!("{}/", s), 4 => format!("{}.", s), 5 => format!("{}:443", s),
            6 => if let Some(r) = s.strip_prefix("https://") { format!("http://{}", r) } else { format!("https://{}", s.trim_start_matches("http://")) },
            7 => format!("{}@evil.test", s), 8 => format!("https://evil.test/{}", s), 9 => format!("{} {}", s, s), 10 => format!("{}, {}", s, s), 11 => format!("{}\u{0}", s), 12 => format!("{}%20", s), _ => "null".to_string() })),
        1 => Just(Some(String::new())),
        1 => Just(Some(",".to_string())),
        2 => Just(Some(origins.join(","))),
        1 => Just(Some(format!(",{}", origins.first().cloned().unwrap_or_default()))),
        2 => prop::sample::select(POOL.to_vec()).prop_map(|s| Some(s.to_string())),
        1 => prop::sample::select(vec!["https://unrelated.test", "e", "h", "https://", "://", ".", "example", "*"]).prop_map(|s| Some(s.to_string())),
        2 => Just(None),
    ]
}

fn case_strategy() -> impl Strategy<Value = Case> {
    let list = |pool: Vec<&'static str>| proptest::collection::vec(prop::sample::select(pool), 0..4).prop_map(|v| { let mut out: Vec<String> = vec![]; for s in v { if !out.contains(&s.to_string()) { out.push(s.to_string()); } } out });
    (proptest::option::weighted(0.85, proptest::bool::weighted(0.25)), list(POOL.to_vec()), list(vec!["GET", "POST", "PUT", "DELETE", "PATCH"]), list(vec!["content-type", "x-custom-header", "Authorization", "X-Mixed-Case", "x_api_key", "x-b3-traceid"]),
     list(vec!["content-type", "x-expose", "ETag", "x_request_id"]), proptest::option::weighted(0.8, any::<bool>()), prop::sample::select(vec!["86400", "0", "5", "600", "-1", "0600", "31536000", "7200.5", "1e3", "abc", ""]))
        .prop_flat_map(|(allow_all, origins, methods, headers, expose, credentials, max_age)| {
            (origin_strategy(origins.clone()), prop::sample::select(vec!["GET", "GET", "OPTIONS", "OPTIONS", "POST", "HEAD", "PUT"]), any::<bool>(), 0u8..12)
                .prop_map(move |(origin, method, preflight, target)| Case { allow_all, origins: origins.clone(), methods: methods.clone(), headers: headers.clone(), expose: expose.clone(), credentials, max_age: max_age.to_string(), origin, method: method.to_string(), preflight, target, via_file: target % 3 == 1 })
        })
}

pub const TARGETS: [&str; 12] = ["/", "/", "/", "/a.txt", "/sub/", "/page", "/big.bin", "/missing", "/style.css", "/form-get-method?a=b", "/noindex/z.css", "/sub/deep/y.png"];

fn set_env(c: &Case) {
    if c.via_file {
        // the same configuration as a config file: every value a client-visible grant is made of passes through the file reader
        for (k, _) in std::env::vars() { if k.starts_with("RWS_CONFIG_") { std::env::remove_var(k); } }
        let list = |v: &Vec<String>| format!("[{}]", v.iter().map(|x| format!("'{}'", x)).collect::<Vec<_>>().join(","));
        let mut text = String::from("ip = '127.0.0.1'\n\n[cors]\n");
        if let Some(b) = c.allow_all { text.push_str(&format!("allow_all = {}\n", b)); }
        text.push_str(&format!("allow_origins = {}\nallow_methods = {}\nallow_headers = {}\nexpose_headers = {}\n", list(&c.origins), list(&c.methods), list(&c.headers), list(&c.expose)));
        if let Some(b) = c.credentials { text.push_str(&format!("allow_credentials = {}\n", b)); }
        text.push_str(&format!("max_age = '{}'\n", c.max_age));
        let _ = crate::entry_point::config_file::read_config_file(std::io::Cursor::new(text.as_bytes()), String::new());
        crate::entry_point::set_default_values();
        return;
    }
    let set = |k: &str, v: Option<String>| match v { Some(v) => std::env::set_var(k, v), None => std::env::remove_var(k) };
    set("RWS_CONFIG_CORS_ALLOW_ALL", c.allow_all.map(|b| b.to_string()));
    set("RWS_CONFIG_CORS_ALLOW_ORIGINS", Some(c.origins.join(",")));
    set("RWS_CONFIG_CORS_ALLOW_METHODS", Some(c.methods.join(",")));
    set("RWS_CONFIG_CORS_ALLOW_HEADERS", Some(c.headers.join(",")));
    set("RWS_CONFIG_CORS_EXPOSE_HEADERS", Some(c.expose.join(",")));
    // credentials not configured: in a third of those cases (by the case's other fields) the variable is an empty string, otherwise it is absent and gets
    // whatever the server's start-up code gives an absent setting (set_default_values, as Server::setup runs it)
    let absent = c.credentials.is_none() && (c.origins.len() + c.methods.len() + c.target as usize) % 3 != 0;
    set("RWS_CONFIG_CORS_ALLOW_CREDENTIALS", if absent { None } else { Some(c.credentials.map(|b| b.to_string()).unwrap_or_default()) });
    set("RWS_CONFIG_CORS_MAX_AGE", Some(c.max_age.clone()));
    crate::entry_point::set_default_values();
}

fn request_of(c: &Case) -> Request {
    let mut headers = vec![Header { name: "Host".into(), value: "localhost".into() }];
    if let Some(o) = &c.origin { headers.push(Header { name: "Origin".into(), value: o.clone() }); }
    if c.preflight { headers.push(Header { name: "Access-Control-Request-Method".into(), value: "PUT".into() }); headers.push(Header { name: "Access-Control-Request-Headers".into(), value: "X-Req-Header".into() }); }
    Request { method: c.method.clone(), request_uri: TARGETS[c.target as usize % TARGETS.len()].into(), http_version: "HTTP/1.1".into(), headers, body: vec![] }
}

/// M-CORS over a list of (name, value) headers that some route produced.
fn judge_headers(c: &Case, route: &str, hs: &[(String, String)], switch_known: bool, problems: &mut Vec<(String, String)>) {
    let ac: Vec<&(String, String)> = hs.iter().filter(|(n, _)| n.to_lowercase().starts_with("access-control-")).collect();
    let get = |name: &str| -> Vec<&str> { ac.iter().filter(|(n, _)| n.eq_ignore_ascii_case(name)).map(|(_, v)| v.as_str()).collect() };
    let ctxt = format!("[{}] allow_all={:?} origins={:?} credentials={:?} Origin={:?} method={} preflight={} -> {:?}", route, c.allow_all, c.origins, c.credentials, c.origin, c.method, c.preflight, ac);
    let origin = match &c.origin {
        None => { if !ac.is_empty() { problems.push(("grants-without-origin-header".into(), ctxt)); } return; }
        Some(o) => o,
    };
    let switch_on = c.allow_all.unwrap_or(true);
    if !switch_known && c.allow_all.is_none() { return; }
    let is_options = c.method == "OPTIONS";
    if switch_on {
        if get("Access-Control-Allow-Origin") != vec![origin.as_str()] { problems.push(("allow-all-does-not-echo-origin".into(), ctxt.clone())); }
        if get("Access-Control-Allow-Credentials") != vec!["true"] { problems.push(("allow-all-without-credentials".into(), ctxt.clone())); }
        return;
    }
    let member = !origin.is_empty() && c.origins.iter().any(|o| o == origin);
    if !member {
        if !ac.is_empty() {
            let kind = if origin.is_empty() { "empty" } else if c.origins.iter().any(|o| o.contains(origin.as_str())) || c.origins.join(",").contains(origin.as_str()) { "substring-of-configured" } else if c.origins.iter().any(|o| o.eq_ignore_ascii_case(origin)) { "case-variant" } else { "other" };
            problems.push((format!("grants-to-unlisted-origin:{}", kind), ctxt));
        }
        return;
    }
    if get("Access-Control-Allow-Origin") != vec![origin.as_str()] { problems.push(("listed-origin-not-granted".into(), ctxt.clone())); return; }
    let creds = get("Access-Control-Allow-Credentials");
    match c.credentials { Some(true) => if creds != vec!["true"] { problems.push(("credentials-grant-missing".into(), ctxt.clone())); }, _ => if !creds.is_empty() { problems.push(("credentials-granted-although-not-configured".into(), ctxt.clone())); } }
    if is_options {
        if get("Access-Control-Allow-Methods") != vec![c.methods.join(",").as_str()] { problems.push(("preflight-methods-differ-from-configuration".into(), ctxt.clone())); }
        if get("Access-Control-Allow-Headers").iter().map(|v| v.to_lowercase()).collect::<Vec<_>>() != vec![c.headers.join(",").to_lowercase()] { problems.push(("preflight-headers-differ-from-configuration".into(), ctxt.clone())); }
        if get("Access-Control-Expose-Headers").iter().map(|v| v.to_lowercase()).collect::<Vec<_>>() != vec![c.expose.join(",").to_lowercase()] { problems.push(("expose-headers-differ-from-configuration".into(), ctxt.clone())); }
        if get("Access-Control-Max-Age") != vec![c.max_age.as_str()] { problems.push(("max-age-differs-from-configuration".into(), ctxt)); }
    }
}

pub fn eval(ctx: &Ctx, c: &Case) -> Verdict {
    set_env(c);
    let req = request_of(c);
    let mut problems = vec![];
    // route 1: environment based
    match catch(|| Cors::get_headers(&req)) {
        Err((m, loc)) => problems.push((format!("panic:{}:{}", super::common::panic_module(&loc), m), format!("Cors::get_headers panicked at {}", loc))),
        Ok(hs) => { let v: Vec<(String, String)> = hs.into_iter().map(|h| (h.name, h.value)).collect(); judge_headers(c, "Cors::get_headers", &v, true, &mut problems); }
    }
    match catch(|| Header::get_header_list(&req)) {
        Err((m, loc)) => problems.push((format!("panic:{}:{}", super::common::panic_module(&loc), m), format!("Header::get_header_list panicked at {}", loc))),
        Ok(hs) => { let v: Vec<(String, String)> = hs.into_iter().map(|h| (h.name, h.value)).collect(); judge_headers(c, "Header::get_header_list", &v, true, &mut problems); }
    }
    // route 2: struct based (only the restricted mode exists there)
    if c.allow_all == Some(false) {
        let cors = Cors { allow_all: false, allow_origins: c.origins.clone(), allow_methods: c.methods.clone(), allow_headers: c.headers.clone(), allow_credentials: c.credentials.unwrap_or(false), expose_headers: c.expose.clone(), max_age: c.max_age.clone() };
        match catch(|| Cors::_process(&req, &cors)) {
            Err((m, loc)) => problems.push((format!("panic:{}:{}", super::common::panic_module(&loc), m), format!("Cors::_process panicked at {}", loc))),
            Ok(Err(e)) => problems.push(("cors-process-returns-err".into(), e.message)),
            Ok(Ok(hs)) => { let v: Vec<(String, String)> = hs.into_iter().map(|h| (h.name, h.value)).collect(); judge_headers(c, "Cors::_process", &v, true, &mut problems); }
        }
    }
    // route 3: full round trip through the server
    let bytes = req.generate();
    let o = inproc::serve(&bytes, Transport::default(), 10000, AppKind::Real, Entry::Process);
    match (&o.result, mhttp::parse(&o.out)) {
        (Err((m, loc)), _) => problems.push((format!("panic:{}:{}", super::common::panic_module(loc), m), format!("Server::process panicked at {}", loc))),
        (_, Ok(r)) => {
            // on the wire optional blanks around a field value are not part of the value (RFC 7230 3.2): the server may see the Origin with or
            // without its leading / trailing SP and HTAB - the grants must be right for one of the two readings
            let mut raw = vec![];
            judge_headers(c, "Server::process", &r.headers, true, &mut raw);
            let trimmed = c.origin.as_ref().map(|o| o.trim_matches(|ch| ch == ' ' || ch == '\t').to_string());
            if !raw.is_empty() && trimmed != c.origin {
                let mut c2 = c.clone(); c2.origin = trimmed;
                let mut alt = vec![];
                judge_headers(&c2, "Server::process", &r.headers, true, &mut alt);
                if !alt.is_empty() { problems.extend(raw); }
            } else { problems.extend(raw); }
        }
        (_, Err(p)) => problems.push((format!("unparseable-response:{}", p.sig), String::new())),
    }
    let switch_on = c.allow_all.unwrap_or(true);
    let near_miss = !switch_on && c.origin.as_ref().map(|o| !c.origins.contains(o) && (c.origins.join(",").contains(o.as_str()) || c.origins.iter().any(|x| x.eq_ignore_ascii_case(o) || o.contains(x.as_str())))).unwrap_or(false);
    let mut classes = vec![];
    classes.push(if switch_on { "switch-on" } else { "switch-off" });
    if c.origin.is_none() { classes.push("no-origin"); }
    if near_miss { classes.push("near-miss-origin"); }
    if !switch_on && c.origin.as_ref().map(|o| c.origins.contains(o)).unwrap_or(false) { classes.push("listed-origin"); }
    if c.method == "OPTIONS" { classes.push("options"); }
    if c.via_file { classes.push("configuration-read-from-a-config-file-text"); }
    if TARGETS[c.target as usize % TARGETS.len()] != "/" { classes.push("target-other-than-root"); }
    ctx.judge(problems, near_miss, classes)
}

pub fn run(ctx: &Ctx) {
    crate::fw::inproc::init_env();
    let tree = match super::common::fixed_docroot() { Ok(t) => t, Err(e) => { ctx.inconclusive(&format!("docroot: {}", e)); return; } };
    ctx.prop("grants", ctx.share(ctx.scale(40_000, 2_000_000)), case_strategy(), |c| eval(ctx, c));
    let _ = std::env::set_current_dir("/");
    drop(tree);
}

pub fn replay(ctx: &Ctx, _section: &str, case: &Value) -> Verdict {
    crate::fw::inproc::init_env();
    let _tree = match super::common::fixed_docroot() { Ok(t) => t, Err(e) => return Verdict::fail("replay-docroot-failed", e.to_string()) };
    match serde_json::from_value::<Case>(case.clone()) { Ok(c) => eval(ctx, &c), Err(e) => Verdict::fail("replay-unreadable", e.to_string()) }
}
