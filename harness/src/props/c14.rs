//! C14 — request parsing accepts exactly well-formed requests and round-trips them.
use crate::fw::util::{pick_idx, Bytes};
use crate::fw::{catch, Ctx, RunSpec, Tier, Verdict};
use crate::header::Header;
use crate::request::Request;
use proptest::prelude::*;
use serde::{Deserialize, Serialize};
use serde_json::Value;

pub const METHODS: [&str; 9] = ["GET", "HEAD", "POST", "PUT", "DELETE", "CONNECT", "OPTIONS", "TRACE", "PATCH"];
pub const VERSIONS: [&str; 4] = ["HTTP/0.9", "HTTP/1.0", "HTTP/1.1", "HTTP/2.0"];

pub fn spec(tier: Tier) -> RunSpec {
    super::base_spec(
        8,
        "sections: roundtrip (well-formed request values: 9 methods x 4 versions x printable non-space targets incl. non-ASCII x 0..50 headers with values containing ':', '=', ': ', \
leading/trailing blanks x arbitrary-byte bodies; oracle Request::parse(r.generate()) == r field by field, plus case-insensitive header lookup), \
raw (request-line near misses and arbitrary UTF-8 heads; oracle = the harness's accept/reject model on the exact-case request line: Ok iff known method, non-empty target, known version and exactly three fields; \
Err for missing parts, unknown method/version, non-UTF-8 request line; totality only for lower case, extra spaces, tabs, missing terminator, non-UTF-8 in later header lines). \
Non-trivial = value containing ':' or ': ', body starting with CR/LF or holding non-UTF-8, >= 10 headers, or a near miss; distinct by generated case.",
        &["Request::generate is the library's serialiser (used as given)", "a generated Content-Length value is numeric unless the case is in the junk-content-length class"],
        if tier == Tier::Quick { 600 } else { 7200 },
    )
}

#[derive(Clone, Debug, Serialize, Deserialize)]
#[serde(tag = "kind")]
pub enum Case {
    #[serde(rename = "roundtrip")]
    RoundTrip { method: u8, version: u8, target: String, headers: Vec<(String, String)>, body: Bytes, lookup: (u16, u64) },
    #[serde(rename = "raw")]
    Raw { line: Bytes, terminator: String, rest: Bytes },
}

fn printable_char() -> impl Strategy<Value = char> {
    prop_oneof![
        12 => (0x21u8..0x7f).prop_map(|b| b as char),
        2 => prop::sample::select(vec![':', '=', ';', ',', '%', '?', '#', '/', '&', '+', '-', '_', '.', '~', '"', '\'']),
        1 => prop::sample::select(vec!['é', 'ж', '中', 'ß', 'Ω', '€', '😀', 'İ', 'ǆ']),
    ]
}

fn target_strategy() -> impl Strategy<Value = String> {
    prop_oneof![
        6 => proptest::collection::vec(printable_char(), 1..24).prop_map(|v| { let mut s = String::from("/"); s.extend(v); s }),
        2 => proptest::collection::vec(printable_char(), 1..200).prop_map(|v| v.into_iter().collect::<String>()),
        1 => Just("*".to_string()),
        1 => Just("/".to_string()),
        1 => crate::fw::greq::long_text().prop_map(|b| format!("/{}", String::from_utf8_lossy(&b.0).replace(' ', "_"))),
    ]
}

fn header_name() -> impl Strategy<Value = String> {
    prop_oneof![
        5 => "[A-Za-z][A-Za-z0-9-]{0,24}",
        2 => prop::sample::select(vec!["Host", "Origin", "Range", "Content-Type", "Accept", "content-type", "X-Forwarded-For", "Cookie", "ACCEPT-ENCODING"]).prop_map(|s| s.to_string()),
        // any printable text without ": " and without a leading/trailing blank-only shape
        2 => proptest::collection::vec(prop_oneof![8 => printable_char(), 1 => Just(' '), 1 => Just(':')], 1..20).prop_map(|v| {
            let s: String = v.into_iter().collect();
            let s = s.replace(": ", ":_");
            let s = s.trim().to_string();
            if s.is_empty() || s.ends_with(':') { format!("x{}y", s) } else { s }
        }),
    ]
}

fn header_value() -> impl Strategy<Value = String> {
    let piece = prop_oneof![
        8 => printable_char().prop_map(|c| c.to_string()),
        2 => Just(" ".to_string()),
        2 => Just(": ".to_string()),
        1 => Just(":".to_string()),
        1 => Just("=".to_string()),
        1 => Just(", ".to_string()),
        1 => Just("\t".to_string()),
    ];
    prop_oneof![
        8 => proptest::collection::vec(piece, 0..24).prop_map(|v| v.concat()),
        1 => Just("a: b".to_string()),
        1 => Just("bytes=0-1, 5-: x".to_string()),
        1 => proptest::collection::vec(printable_char(), 100..400).prop_map(|v| v.into_iter().collect::<String>()),
        // lengths around 64 .. 8192, single- and multi-byte characters
        1 => crate::fw::greq::long_text().prop_map(|b| String::from_utf8_lossy(&b.0).to_string()),
    ]
}

fn body_strategy(max: usize) -> impl Strategy<Value = Bytes> {
    prop_oneof![
        2 => Just(Bytes(vec![])),
        3 => proptest::collection::vec(any::<u8>(), 0..64).prop_map(Bytes),
        2 => (prop::sample::select(vec!["\r\n", "\n", "\r", "\r\n\r\n", "\0", "\n\n"]), proptest::collection::vec(any::<u8>(), 0..64)).prop_map(|(p, mut v)| { let mut b = p.as_bytes().to_vec(); b.append(&mut v); Bytes(b) }),
        1 => proptest::collection::vec(prop_oneof![Just(b'\r'), Just(b'\n'), Just(0u8), Just(b':'), Just(b' '), any::<u8>()], 0..300).prop_map(Bytes),
        1 => proptest::collection::vec(any::<u8>(), 0..max).prop_map(Bytes),
    ]
}

fn headers_strategy() -> impl Strategy<Value = Vec<(String, String)>> {
    let content_length = prop_oneof![
        6 => (0u64..100000).prop_map(|n| n.to_string()),
        1 => Just("0".to_string()),
        1 => Just("18446744073709551615".to_string()),
        1 => "[0-9]{20,30}",
    ];
    let h = prop_oneof![
        12 => (header_name(), header_value()),
        1 => (prop::sample::select(vec!["Content-Length", "content-length", "CONTENT-LENGTH"]).prop_map(|s| s.to_string()), content_length),
    ];
    prop_oneof![
        3 => proptest::collection::vec(h.clone(), 0..4),
        3 => proptest::collection::vec(h.clone(), 0..12),
        1 => proptest::collection::vec(h, 10..=50),
    ]
}

fn roundtrip_strategy(max_body: usize) -> impl Strategy<Value = Case> {
    (0u8..9, 0u8..4, target_strategy(), headers_strategy(), body_strategy(max_body), (any::<u16>(), any::<u64>()))
        .prop_map(|(method, version, target, headers, body, lookup)| Case::RoundTrip { method, version, target, headers, body, lookup })
}

fn raw_strategy() -> impl Strategy<Value = Case> {
    let method = prop_oneof![
        6 => prop::sample::select(METHODS.to_vec()).prop_map(|s| s.to_string()),
        2 => prop::sample::select(vec!["get", "Get", "post", "oPTIONS", "GETS", "GE", "FOO", "G ET", "LINK", "PROPFIND", "", "GET\t", "ＧＥＴ", "GÉT"]).prop_map(|s| s.to_string()),
        1 => "[A-Z]{1,8}",
    ];
    let version = prop_oneof![
        6 => prop::sample::select(VERSIONS.to_vec()).prop_map(|s| s.to_string()),
        2 => prop::sample::select(vec!["HTTP/1.2", "HTTP/3.0", "HTTP/1", "HTTP/1.1.1", "http/1.1", "Http/1.0", "HTTP1.1", "HTTP/11", "", "HTTPS/1.1", "HTTP/1.1x", "HTTP/2", "ＨTTP/1.1"]).prop_map(|s| s.to_string()),
        1 => "[A-Z]{1,5}/[0-9]\\.[0-9]",
    ];
    let sep = prop_oneof![8 => Just(" ".to_string()), 1 => Just("  ".to_string()), 1 => Just("\t".to_string()), 1 => Just("".to_string())];
    let line = prop_oneof![
        10 => (method, sep.clone(), proptest::option::weighted(0.9, target_strategy()), sep, proptest::option::weighted(0.9, version), prop::sample::select(vec!["", "", "", "", " ", "\t", " x", " HTTP/1.1", " junk more"]))
            .prop_map(|(m, s1, t, s2, v, tail)| {
                let mut l = m;
                if let Some(t) = t { l.push_str(&s1); l.push_str(&t); }
                if let Some(v) = v { l.push_str(&s2); l.push_str(&v); }
                l.push_str(tail);
                Bytes(l.into_bytes())
            }),
        1 => proptest::collection::vec(any::<u8>(), 0..40).prop_map(Bytes),
        1 => (prop::sample::select(METHODS.to_vec()), proptest::collection::vec(any::<u8>(), 1..12), prop::sample::select(VERSIONS.to_vec()))
            .prop_map(|(m, mut t, v)| { let mut l = m.as_bytes().to_vec(); l.extend_from_slice(b" /"); t.retain(|b| *b != b' ' && *b != b'\n' && *b != b'\r'); t.push(0xff); l.append(&mut t); l.push(b' '); l.extend_from_slice(v.as_bytes()); Bytes(l) }),
        1 => Just(Bytes(vec![])),
    ];
    let rest_line = prop_oneof![
        6 => (header_name(), header_value()).prop_map(|(n, v)| format!("{}: {}\r\n", n, v).into_bytes()),
        1 => "[ -~]{0,30}".prop_map(|s| format!("{}\r\n", s).into_bytes()),
        1 => "[ -~]{0,30}".prop_map(|s| format!("{}\n", s).into_bytes()),
        // a colon that is not followed by the usual blank, an empty value, a line without a colon
        2 => (header_name(), prop::sample::select(vec![":", ":\t", ":  ", ": ", ""]), "[!-~]{0,12}").prop_map(|(n, c, v)| format!("{}{}{}\r\n", n, c, v).into_bytes()),
        1 => Just(b"Content-Length: abc\r\n".to_vec()),
        1 => Just(b"Content-Length: -1\r\n".to_vec()),
        1 => Just(b"Content-Length: 1 2\r\n".to_vec()),
        1 => Just(b"Content-Length:\r\n".to_vec()),
        1 => proptest::collection::vec(any::<u8>(), 0..20).prop_map(|mut v| { v.retain(|b| *b != b'\n'); v.extend_from_slice(b"\r\n"); v }),
    ];
    let rest = (proptest::collection::vec(rest_line, 0..8), proptest::option::weighted(0.8, body_strategy(200)))
        .prop_map(|(lines, body)| { let mut r = lines.concat(); if let Some(b) = body { r.extend_from_slice(b"\r\n"); r.extend_from_slice(&b.0); } Bytes(r) });
    (line, prop::sample::select(vec!["\r\n", "\r\n", "\r\n", "\n", "", "\r"]).prop_map(|s| s.to_string()), rest)
        .prop_map(|(line, terminator, rest)| Case::Raw { line, terminator, rest })
}

fn fold_case(name: &str, pattern: u64) -> String {
    name.chars().enumerate().map(|(i, c)| if (pattern >> (i % 64)) & 1 == 1 { c.to_ascii_uppercase() } else { c.to_ascii_lowercase() }).collect()
}

pub fn eval(ctx: &Ctx, case: &Case) -> Verdict {
    match case {
        Case::RoundTrip { method, version, target, headers, body, lookup } => {
            let req = Request {
                method: METHODS[*method as usize % 9].to_string(),
                request_uri: target.clone(),
                http_version: VERSIONS[*version as usize % 4].to_string(),
                headers: headers.iter().map(|(n, v)| Header { name: n.clone(), value: v.clone() }).collect(),
                body: body.0.clone(),
            };
            let bytes = match catch(|| req.generate()) { Ok(b) => b, Err((m, _)) => return Verdict::fail(format!("panic:Request::generate:{}", m), "serialiser panicked".to_string()) };
            let parsed = match catch(|| Request::parse(&bytes)) {
                Err((m, loc)) => return Verdict::fail(format!("panic:Request::parse:{}", m), format!("panic at {} on a request generated by the library", loc)),
                Ok(Err(e)) => return Verdict::fail("parse-rejects-generated-request", format!("Request::parse returned Err({:?}) for {}", e, crate::fw::util::lossy(&bytes, 200))),
                Ok(Ok(r)) => r,
            };
            let mut problems: Vec<(String, String)> = vec![];
            if parsed.method != req.method { problems.push(("roundtrip-method".into(), format!("{:?} != {:?}", parsed.method, req.method))); }
            if parsed.request_uri != req.request_uri { problems.push(("roundtrip-target".into(), format!("{:?} != {:?}", parsed.request_uri, req.request_uri))); }
            if parsed.http_version != req.http_version { problems.push(("roundtrip-version".into(), format!("{:?} != {:?}", parsed.http_version, req.http_version))); }
            let mut got: &[Header] = &parsed.headers;
            if got.len() == req.headers.len() + 1 && got[0].name.is_empty() && got[0].value.is_empty() {
                problems.push(("roundtrip-phantom-empty-header".into(), format!("parsed request has {} headers, the first one empty; {} were serialised", got.len(), req.headers.len())));
                got = &got[1..];
            }
            if got.len() != req.headers.len() {
                problems.push(("roundtrip-header-count".into(), format!("{} headers parsed, {} serialised", got.len(), req.headers.len())));
            } else {
                for (i, (g, w)) in got.iter().zip(req.headers.iter()).enumerate() {
                    if g.name != w.name { problems.push(("roundtrip-header-name".into(), format!("header {}: name {:?} != {:?}", i, g.name, w.name))); break; }
                    if g.value != w.value {
                        let cut = w.value.find(": ").map(|p| &w.value[..p]);
                        if cut == Some(g.value.as_str()) {
                            problems.push(("roundtrip-header-value-cut-at-colon-space".into(), format!("header {}: value {:?} came back as {:?}", i, w.value, g.value)));
                        } else {
                            problems.push(("roundtrip-header-value".into(), format!("header {}: value {:?} != {:?}", i, g.value, w.value)));
                        }
                        break;
                    }
                }
            }
            if parsed.body != req.body { problems.push(("roundtrip-body".into(), format!("body {} bytes parsed, {} serialised: {} vs {}", parsed.body.len(), req.body.len(), crate::fw::util::lossy(&parsed.body, 40), crate::fw::util::lossy(&req.body, 40)))); }
            // case-insensitive lookup: first header whose name equals n ignoring ASCII case
            if !req.headers.is_empty() {
                let idx = pick_idx(lookup.0, req.headers.len());
                let name = &req.headers[idx].name;
                let folded = fold_case(name, lookup.1);
                let want = req.headers.iter().find(|h| h.name.to_lowercase() == folded.to_lowercase());
                let found = match catch(|| req.get_header(folded.clone()).cloned()) { Ok(f) => f, Err((m, _)) => return Verdict::fail(format!("panic:get_header:{}", m), String::new()) };
                match (found, want) {
                    (Some(f), Some(w)) => if f.name != w.name || f.value != w.value { problems.push(("lookup-wrong-header".into(), format!("get_header({:?}) found {:?}, first match is {:?}", folded, f.name, w.name))); },
                    (None, Some(_)) => problems.push(("lookup-not-case-insensitive".into(), format!("get_header({:?}) found nothing although {:?} is present", folded, name))),
                    _ => {}
                }
            }
            let nontrivial = headers.iter().any(|(_, v)| v.contains(':')) || headers.len() >= 10 || body.0.starts_with(b"\r") || body.0.starts_with(b"\n") || std::str::from_utf8(&body.0).is_err();
            let mut classes = vec![];
            if headers.iter().any(|(_, v)| v.contains(": ")) { classes.push("value-with-colon-space"); }
            if headers.len() >= 10 { classes.push("ten-or-more-headers"); }
            if body.0.starts_with(b"\r") || body.0.starts_with(b"\n") { classes.push("body-starts-with-line-break"); }
            if std::str::from_utf8(&body.0).is_err() { classes.push("body-non-utf8"); }
            if !target.is_ascii() { classes.push("non-ascii-target"); }
            ctx.judge(problems, nontrivial, classes)
        }
        Case::Raw { line, terminator, rest } => {
            let mut bytes = line.0.clone();
            bytes.extend_from_slice(terminator.as_bytes());
            bytes.extend_from_slice(&rest.0);
            let outcome = match catch(|| Request::parse(&bytes)) {
                Err((m, loc)) => return Verdict::fail(format!("panic:Request::parse:{}", m), format!("panic at {} on {}", loc, crate::fw::util::lossy(&bytes, 200))),
                Ok(r) => r,
            };
            // model
            let full_first_line: Vec<u8> = { let upto = bytes.iter().position(|b| *b == b'\n').map(|p| p + 1).unwrap_or(bytes.len()); bytes[..upto].to_vec() };
            let head_end = crate::fw::util::find_sub(&bytes, b"\r\n\r\n").map(|p| p + 4).unwrap_or(bytes.len());
            let head_utf8 = std::str::from_utf8(&bytes[..head_end]).is_ok();
            #[derive(PartialEq, Debug)]
            enum Expect { Ok(String, String, String), Err, Any }
            let expect = match std::str::from_utf8(&full_first_line) {
                Err(_) => Expect::Err,
                Ok(l) => {
                    let l = l.trim_end_matches(|c| c == '\r' || c == '\n');
                    if l.contains('\n') || l.contains('\r') { Expect::Any } else {
                        // rws trims the line first; leading/trailing blanks are an "extra spaces" near miss (outcome not fixed)
                        let t = l.trim();
                        let padded = t != l;
                        let fields: Vec<&str> = t.split(' ').collect();
                        let ws_inside = t.chars().any(|c| c.is_whitespace() && c != ' ');
                        if t.is_empty() { Expect::Err }
                        else if fields.len() < 3 { Expect::Err }
                        // an empty field (two adjacent spaces; the unit tests pin "GET  HTTP/1.1" as accepted with an empty target), more than three fields, other whitespace: outcome not fixed
                        // more than three clean fields: what follows the target is not a version ("HTTP/1.1 junk" names no supported version)
                        else if !padded && !ws_inside && fields.len() > 3 && fields.iter().all(|f| !f.is_empty()) { Expect::Err }
                        else if padded || ws_inside || fields.len() > 3 || fields.iter().any(|f| f.is_empty()) { Expect::Any }
                        else {
                            let (m, t, v) = (fields[0], fields[1], fields[2]);
                            let m_known = METHODS.contains(&m); let v_known = VERSIONS.contains(&v);
                            let m_known_ci = METHODS.contains(&m.to_uppercase().as_str()); let v_known_ci = VERSIONS.contains(&v.to_uppercase().as_str());
                            if m_known && v_known { if head_utf8 { Expect::Ok(m.to_string(), t.to_string(), v.to_string()) } else { Expect::Any } }
                            else if !m_known_ci || !v_known_ci { Expect::Err }
                            else { Expect::Any }
                        }
                    }
                }
            };
            let mut classes = vec![];
            let v = match (&expect, &outcome) {
                (Expect::Ok(m, t, v), Ok(r)) => {
                    classes.push("raw-accept");
                    if &r.method != m || &r.request_uri != t || &r.http_version != v { Verdict::fail("accepted-request-line-misread", format!("line {:?} parsed as ({:?},{:?},{:?})", line.escaped(), r.method, r.request_uri, r.http_version)) } else { Verdict::passc(true, classes) }
                }
                (Expect::Ok(..), Err(e)) => Verdict::fail("wellformed-request-rejected", format!("Err({:?}) for a message with a valid request line and UTF-8 head: {}", e, crate::fw::util::lossy(&bytes, 160))),
                (Expect::Err, Ok(r)) => Verdict::fail("malformed-request-line-accepted", format!("request line {:?} was accepted as ({:?},{:?},{:?})", crate::fw::util::lossy(&full_first_line, 80), r.method, r.request_uri, r.http_version)),
                (Expect::Err, Err(_)) => { classes.push("raw-reject"); Verdict::passc(true, classes) }
                (Expect::Any, _) => { classes.push("raw-totality-only"); Verdict::passc(true, classes) }
            };
            v
        }
    }
}

/// Fuzz / corpus entry: totality on any bytes; parse . generate is idempotent on whatever parses into printable fields.
pub fn judge_bytes(ctx: &Ctx, bytes: &[u8]) -> Verdict {
    let parsed = match catch(|| Request::parse(bytes)) {
        Err((m, loc)) => return Verdict::fail(format!("panic:Request::parse:{}", m), format!("panic at {} on {}", loc, crate::fw::util::lossy(bytes, 200))),
        Ok(Err(_)) => return Verdict::pass(false),
        Ok(Ok(r)) => r,
    };
    let printable = |s: &str| s.chars().all(|c| !c.is_control());
    if !(printable(&parsed.request_uri) && parsed.headers.iter().all(|h| printable(&h.name) && printable(&h.value) && !h.name.contains(": ") && !h.name.trim().is_empty())) { return Verdict::pass(false); }
    // the serialiser writes exact-case method/version as parsed; the request line is re-read through trim() and split on blanks
    if parsed.request_uri.contains(' ') || parsed.request_uri.is_empty() { return Verdict::pass(false); }
    let again = match catch(|| Request::parse(&parsed.generate())) {
        Err((m, loc)) => return Verdict::fail(format!("panic:Request::parse:{}", m), format!("panic at {} on a re-serialised request", loc)),
        Ok(Err(e)) => return ctx.judge(vec![("reserialised-request-rejected".into(), format!("Err({:?}) for the serialisation of a parsed request: {}", e, crate::fw::util::lossy(&parsed.generate(), 200)))], true, vec![]),
        Ok(Ok(r)) => r,
    };
    if again != parsed { return ctx.judge(vec![("parse-generate-not-idempotent".into(), format!("{:?} != {:?}", again, parsed))], true, vec![]); }
    Verdict::pass(true)
}

pub fn run(ctx: &Ctx) {
    let max_body = if ctx.quick() { 2000 } else { 65536 };
    ctx.prop("roundtrip", ctx.share(ctx.scale(50_000, 2_000_000)), roundtrip_strategy(max_body), |c| eval(ctx, c));
    ctx.prop("raw", ctx.share(ctx.scale(40_000, 2_000_000)), raw_strategy(), |c| eval(ctx, c));
    // saved corpus of the coverage-guided campaigns (corpus/c14/*.pack): raw request bytes
    ctx.set_section("corpus");
    super::c04::replay_corpus(ctx, "c14", |ctx, data| judge_bytes(ctx, data));
}

pub fn replay(ctx: &Ctx, _section: &str, case: &Value) -> Verdict {
    if let Some(b) = case.get("bytes").and_then(|b| b.as_str()) { if case.get("corpus_file").is_some() { return judge_bytes(ctx, &crate::fw::util::unescape_bytes(b)); } }
    match serde_json::from_value::<Case>(case.clone()) {
        Ok(c) => eval(ctx, &c),
        Err(e) => Verdict::fail("replay-unreadable", e.to_string()),
    }
}
