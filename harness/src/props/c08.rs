//! C08 — concurrent requests do not influence one another (differential: concurrent vs serial).
use super::common::*;
use crate::fw::inproc::{self, AppKind, Entry};
use crate::fw::mock::Transport;
use crate::fw::net::{self, Outcome, Server, ServerOpts};
use crate::fw::util::Bytes;
use crate::fw::{mhttp, Ctx, RunSpec, Tier, Verdict};
use proptest::prelude::*;
use serde::{Deserialize, Serialize};
use serde_json::Value;
use std::io::Write;
use std::time::{Duration, Instant};

pub fn spec(tier: Tier) -> RunSpec {
    let mut s = super::base_spec(
        8,
        "multisets of 2..64 requests drawn from a mixed pool over one docroot (different files incl. a 70 KB one, single and multi ranges, HEAD, OPTIONS, form GET/POST with distinct fields, 404, 400, 416, unparseable input). \
section inproc: K named threads call the real Server::process on mock transports at the same instant (barrier) in one process - same working directory, same environment, maximal overlap. \
section network: the real binary with N in {1,2,4,8,16} workers; arrival shapes: all at once (every request fully sent into the backlog of a SIGSTOPped server, then SIGCONT), client threads released by a barrier, staggered bursts. \
Oracle (differential): each concurrent response equals the serial response to the same request byte for byte after masking the Date-Unix-Epoch-Nanos value and sorting the lines of the form-echo bodies (their order is unspecified hash-map order). \
Section queued-for-a-long-while: a request waits 11 s (thorough: up to 61 s) in the queue of a 1-worker server behind a silent peer and must then get the response it gets alone. Network cases may hold 1..3 silent peers (fewer than N) during the concurrent phase. Non-trivial = at least two requests with different expected responses in flight together (by construction behind the barrier / in the backlog; measured by overlapping [start,end] intervals for staggered arrivals); distinct by (multiset, shape, N).",
        &["real-thread schedules are sampled, not enumerated: a race that needs a window of a few instructions may survive", "serial responses are taken from the same server instance before the concurrent phase"],
        if tier == Tier::Quick { 900 } else { 14400 },
    );
    s.case_limit_s = 300;
    s
}

pub fn pool_request(k: u16) -> Vec<u8> {
    let paths = ["/a.txt", "/big.bin", "/page.html", "/page", "/sub/", "/sub/x.json", "/sub/deep/y.png", "/noext", "/link.txt", "/outdir/f.txt", "/", "/style.css", "/missing", "/noindex/", "/empty.bin", "/é.txt", "/sub/rel.json", "/sub/deep/up.txt"];
    let i = k as usize;
    match i % 16 {
        0..=5 => format!("GET {} HTTP/1.1\r\nHost: localhost\r\n\r\n", paths[(i / 16) % paths.len()]).into_bytes(),
        6 => format!("GET /big.bin HTTP/1.1\r\nRange: bytes={}-{}\r\n\r\n", (i * 37) % 60000, (i * 37) % 60000 + 100 + i % 900).into_bytes(),
        7 => format!("GET /big.bin HTTP/1.1\r\nRange: bytes=0-9, {}-{}, 69990-69999\r\n\r\n", 1000 + i % 500, 2000 + i % 700).into_bytes(),
        8 => format!("HEAD {} HTTP/1.1\r\nOrigin: https://o{}.example\r\n\r\n", paths[(i / 16) % paths.len()], i).into_bytes(),
        9 => format!("GET /form-get-method?field{}=value{}&other=x{} HTTP/1.1\r\n\r\n", i, i * 7, i).into_bytes(),
        10 => { let body = format!("name{}=content{}&second=s{}", i, i * 3, i); format!("POST /form-url-encoded-enctype-post-method HTTP/1.1\r\nContent-Type: application/x-www-form-urlencoded\r\nContent-Length: {}\r\n\r\n{}", body.len(), body).into_bytes() }
        11 => format!("GET /a.txt HTTP/1.1\r\nRange: bytes={}-{}\r\n\r\n", 20 + i % 10, 30 + i % 10).into_bytes(),
        12 => format!("OPTIONS /a.txt HTTP/1.1\r\nOrigin: https://p{}.example\r\nAccess-Control-Request-Method: PUT\r\nAccess-Control-Request-Headers: x-h{}\r\n\r\n", i, i).into_bytes(),
        13 => format!("garbage-{}\r\n\r\n", i).into_bytes(),
        // methods the static controller does not serve, on paths that other requests of the same multiset fetch with GET: whatever one request
        // leaves behind for a path must not change the answer to another
        14 => format!("{} {} HTTP/1.1\r\nHost: localhost\r\nContent-Length: 0\r\n\r\n", ["POST", "PUT", "DELETE", "PATCH"][(i / 16) % 4], paths[(i / 64) % paths.len()]).into_bytes(),
        _ => format!("{} {} HTTP/1.1\r\nHost: localhost\r\n\r\n", ["POST", "DELETE", "TRACE", "CONNECT"][(i / 16) % 4], ["/a.txt", "/page", "/sub/", "/"][(i / 64) % 4]).into_bytes(),
    }
}

/// mask the timestamp value; sort the lines of form echo bodies
pub fn normalise(out: &[u8]) -> Vec<u8> {
    let masked = super::c05::mask_timestamp(out);
    if let Ok(r) = mhttp::parse(&masked) {
        if r.get("Content-Type") == Some("text/plain") && r.body.windows(4).any(|w| w == b" is ") {
            let text = String::from_utf8_lossy(&r.body).to_string();
            let mut lines: Vec<&str> = text.split("\r\n").collect();
            lines.sort();
            let mut v = masked[..r.head_len].to_vec();
            v.extend_from_slice(lines.join("\r\n").as_bytes());
            return v;
        }
    }
    masked
}

#[derive(Clone, Debug, Serialize, Deserialize)]
pub struct InprocCase { pub requests: Vec<u16>, #[serde(default)] pub fresh: bool }

pub fn eval_inproc(ctx: &Ctx, c: &InprocCase) -> Verdict {
    let reqs: Vec<Vec<u8>> = c.requests.iter().map(|k| pool_request(*k)).collect();
    // fresh: a docroot nobody has used yet, the concurrent phase first, the reference afterwards
    let home = std::env::current_dir().ok();
    let fresh_tree = if c.fresh { match crate::fw::tree::Tree::materialise(&crate::fw::greq::fixed_tree(), &crate::fw::scratch_base()) { Ok(t) => { let _ = std::env::set_current_dir(&t.root); Some(t) } Err(_) => None } } else { None };
    let run_serial = || -> Vec<Vec<u8>> { reqs.iter().map(|r| normalise(&inproc::serve(r, Transport::default(), 10000, AppKind::Real, Entry::Process).out)).collect() };
    let mut serial: Vec<Vec<u8>> = if fresh_tree.is_none() { run_serial() } else { vec![] };
    let barrier = std::sync::Arc::new(std::sync::Barrier::new(reqs.len()));
    let mut handles = vec![];
    for (i, r) in reqs.iter().enumerate() {
        let r = r.clone(); let b = barrier.clone();
        handles.push(std::thread::Builder::new().name(format!("{}", i)).spawn(move || { b.wait(); let o = inproc::serve(&r, Transport::default(), 10000, AppKind::Real, Entry::Process); (o.out, o.result.err()) }).unwrap());
    }
    let mut problems = vec![];
    let joined: Vec<_> = handles.into_iter().map(|h| h.join()).collect();
    if fresh_tree.is_some() { serial = run_serial(); }
    if let (Some(_), Some(h)) = (&fresh_tree, &home) { let _ = std::env::set_current_dir(h); }
    drop(fresh_tree);
    for (i, h) in joined.into_iter().enumerate() {
        match h {
            Err(_) => problems.push(("concurrent-thread-died".to_string(), format!("request {}", i))),
            Ok((out, panic)) => {
                if let Some((m, loc)) = panic { problems.push((format!("panic-under-concurrency:{}:{}", panic_module(&loc), m), format!("request {} panicked at {}", crate::fw::util::lossy(&reqs[i], 80), loc))); continue; }
                let got = normalise(&out);
                if got != serial[i] {
                    let other = serial.iter().position(|s| *s == got);
                    problems.push((if other.is_some() { "response-belongs-to-another-request".to_string() } else { "concurrent-response-differs-from-serial".to_string() },
                        format!("request {} ({}): concurrent response has {} bytes, serial {} bytes{}", i, crate::fw::util::lossy(&reqs[i], 80), got.len(), serial[i].len(), other.map(|o| format!("; it equals the serial response of request {}", o)).unwrap_or_default())));
                }
            }
        }
    }
    let distinct: std::collections::HashSet<&Vec<u8>> = serial.iter().collect();
    ctx.judge(problems, distinct.len() >= 2, vec![if reqs.len() >= 16 { "sixteen-or-more-in-flight" } else { "fewer-than-sixteen-in-flight" }])
}

#[derive(Clone, Debug, Serialize, Deserialize)]
pub struct NetCase { pub workers: u8, pub shape: u8, pub requests: Vec<u16>,
    /// a docroot and a server nobody has used yet, the concurrent phase first and the one-at-a-time reference afterwards: whatever the server
    /// sets up on first use (lazily created files, caches) is then set up under concurrency
    #[serde(default)] pub fresh: bool,
    /// (with fresh) the server runs with a layered configuration: CORS settings in rws.config.toml that the command line overrides with other values -
    /// whatever re-reads or re-applies configuration while requests are in flight shows as a response that differs from the one-at-a-time reference
    #[serde(default)] pub layered: bool,
    /// that many connections (at most N-1) are open and silent while the multiset is served: the others must be answered as if they were alone
    #[serde(default)] pub silent: u8 }

static SILENT_SUSPECT: std::sync::atomic::AtomicBool = std::sync::atomic::AtomicBool::new(false);

/// The concurrent phase of a network case: `silent` connections are opened first and held (they say nothing) until every response has been collected.
fn concurrent_phase(srv: &mut Server, reqs: &[Vec<u8>], shape: u8, limit: Duration, silent: usize) -> Vec<(Vec<u8>, Outcome, Instant, Instant)> {
    let mut held = vec![];
    for _ in 0..silent { if let Ok(s) = srv.connect() { held.push(s); } }
    if silent > 0 { std::thread::sleep(Duration::from_millis(10)); }
    let mut got: Vec<(Vec<u8>, Outcome, Instant, Instant)> = vec![];
    match shape % 3 {
        0 => {
            // all at once: fully sent into the backlog of the stopped server
            srv.sigstop();
            let t0 = Instant::now();
            let mut conns = vec![];
            for r in reqs { match srv.connect() { Ok(mut s) => { let _ = s.write_all(r); conns.push(Some(s)); } Err(_) => conns.push(None) } }
            srv.sigcont();
            // the connections are read one after the other: once one has stayed silent for the whole limit the others have had that time too
            let mut lim = limit;
            for s in conns.into_iter() {
                match s { Some(mut s) => { let ex = net::read_all(&mut s, lim); if ex.outcome == Outcome::TimedOut && ex.bytes.is_empty() { lim = Duration::from_millis(300); } got.push((ex.bytes, ex.outcome, t0, Instant::now())); } None => got.push((vec![], Outcome::ConnectFailed("connect".into()), t0, Instant::now())) }
            }
        }
        shape => {
            let barrier = std::sync::Arc::new(std::sync::Barrier::new(reqs.len()));
            let addr = srv.addr;
            let mut hs = vec![];
            for (i, r) in reqs.iter().enumerate() {
                let r = r.clone(); let b = barrier.clone();
                hs.push(std::thread::spawn(move || {
                    b.wait();
                    if shape == 2 { std::thread::sleep(Duration::from_micros(((i % 4) * 300) as u64)); }
                    let t0 = Instant::now();
                    let ex = match std::net::TcpStream::connect_timeout(&addr, Duration::from_secs(3)) { Ok(mut s) => { let _ = s.write_all(&r); net::read_all(&mut s, limit) } Err(e) => net::Exchange { bytes: vec![], outcome: Outcome::ConnectFailed(e.to_string()) } };
                    (ex.bytes, ex.outcome, t0, Instant::now())
                }));
            }
            for h in hs { got.push(h.join().unwrap_or((vec![], Outcome::ConnectFailed("thread".into()), Instant::now(), Instant::now()))); }
        }
    }
    drop(held);
    got
}

pub fn eval_net(ctx: &Ctx, docroot: &std::path::Path, c: &NetCase) -> Verdict {
    let n = c.workers.max(1) as u32;
    let fresh_tree = if c.fresh { match crate::fw::tree::Tree::materialise(&crate::fw::greq::fixed_tree(), &crate::fw::scratch_base()) { Ok(t) => Some(t), Err(e) => { ctx.inconclusive(&format!("fresh docroot: {}", e)); return Verdict::Discard; } } } else { None };
    let docroot = fresh_tree.as_ref().map(|t| t.root.as_path()).unwrap_or(docroot);
    let mut opts = ServerOpts::new(docroot, n);
    if c.fresh && c.layered {
        let _ = std::fs::write(docroot.join("rws.config.toml"), "[cors]\nallow_all = false\nallow_origins = ['https://file-only.example']\nallow_methods = ['POST']\nallow_headers = ['x-file']\nallow_credentials = false\nexpose_headers = ['x-file-exposed']\nmax_age = '11'\n");
        opts.args = vec!["--cors-allow-all=true".into(), "--cors-max-age=33".into(), "--cors-allow-methods=GET,PUT".into(), "--cors-allow-credentials=true".into()];
    }
    let srv = match Server::start(&opts) { Ok(s) => s, Err(e) => { ctx.inconclusive(&format!("server start: {}", e)); return Verdict::Discard; } };
    let mut srv = srv;
    // once the silent-peer violation has been confirmed in this process, later evaluations (shrinking re-runs the failing case many times) wait 1 s and do not re-confirm
    let suspect = SILENT_SUSPECT.load(std::sync::atomic::Ordering::SeqCst);
    let limit = Duration::from_secs(if suspect && c.silent > 0 { 1 } else { 10 });
    let reqs: Vec<Vec<u8>> = c.requests.iter().map(|k| pool_request(*k)).collect();
    let run_serial = |srv: &Server| -> Option<Vec<Vec<u8>>> {
        let mut serial = vec![];
        for r in &reqs {
            let ex = srv.roundtrip(r, limit);
            if ex.outcome == Outcome::TimedOut { return None; }
            serial.push(normalise(&ex.bytes));
        }
        Some(serial)
    };
    let mut serial: Vec<Vec<u8>> = vec![];
    if !c.fresh { serial = match run_serial(&srv) { Some(s) => s, None => { ctx.inconclusive("serial request timed out"); return Verdict::Discard; } }; }
    // silent peers: connections that are open and say nothing while the multiset is served (fewer than N, so a worker is always free for the others)
    let silent = if n >= 2 { (c.silent as u32).min(n - 1) as usize } else { 0 };
    let mut got = concurrent_phase(&mut srv, &reqs, c.shape, limit, silent);
    let unanswered = |g: &Vec<(Vec<u8>, Outcome, Instant, Instant)>| g.iter().filter(|x| x.1 == Outcome::TimedOut && x.0.is_empty()).count();
    if silent > 0 && unanswered(&got) > 0 && srv.exited().is_none() && srv.missing_workers().is_empty() {
        // differential and repeated: the same multiset without the silent peers, then with them again
        let without = if suspect { vec![] } else { concurrent_phase(&mut srv, &reqs, c.shape, limit, 0) };
        let again = if suspect { got.clone() } else { concurrent_phase(&mut srv, &reqs, c.shape, limit, silent) };
        if unanswered(&without) == 0 && unanswered(&again) > 0 {
            SILENT_SUSPECT.store(true, std::sync::atomic::Ordering::SeqCst);
            return ctx.judge(vec![("response-withheld-while-unrelated-silent-connections-are-open".to_string(), format!("N={} shape {}: with {} silent connection(s) open {} of {} requests got no response within {:?} (observed twice); without them every request was answered", n, c.shape % 3, silent, unanswered(&again), reqs.len(), limit))], true, vec!["silent-peers-held"]);
        }
        ctx.inconclusive("requests unanswered beside silent peers, not repeatable");
        return Verdict::Discard;
    }
    let mut problems = vec![];
    if let Some(e) = srv.exited() { problems.push(("server-process-gone".to_string(), e)); }
    if c.fresh && problems.is_empty() { serial = match run_serial(&srv) { Some(s) => s, None => { ctx.inconclusive("serial request timed out"); return Verdict::Discard; } }; }
    if serial.len() != reqs.len() { return ctx.judge(problems, false, vec![]); }
    for (i, (bytes, outcome, _, _)) in got.iter().enumerate() {
        if *outcome == Outcome::TimedOut { if srv.exited().is_none() && srv.missing_workers().is_empty() { ctx.inconclusive("concurrent request timed out although the server looks healthy"); return Verdict::Discard; } }
        let g = normalise(bytes);
        if g != serial[i] {
            // an oversized / unread request may be answered and then reset by TCP: compare what arrived as a prefix in that case only
            if matches!(outcome, Outcome::Reset(_)) && serial[i].starts_with(&g) { continue; }
            let other = serial.iter().position(|s| *s == g);
            problems.push((if other.is_some() { "response-belongs-to-another-request".to_string() } else { "concurrent-response-differs-from-serial".to_string() },
                format!("N={} shape {} request {} ({}): {} bytes concurrently ({:?}), {} bytes serially{}", n, c.shape % 3, i, crate::fw::util::lossy(&reqs[i], 80), g.len(), outcome, serial[i].len(), other.map(|o| format!("; equals the serial response of request {}", o)).unwrap_or_default())));
        }
    }
    // overlap: by construction for shape 0; measured for the others
    let overlapping = c.shape % 3 == 0 || got.iter().enumerate().any(|(i, a)| got.iter().enumerate().any(|(j, b)| i != j && a.2 < b.3 && b.2 < a.3));
    let distinct: std::collections::HashSet<&Vec<u8>> = serial.iter().collect();
    let mut classes = vec![match c.shape % 3 { 0 => "shape-backlog-all-at-once", 1 => "shape-barrier", _ => "shape-staggered" }];
    classes.push(match n { 1 => "workers-1", 2 => "workers-2", 4 => "workers-4", 8 => "workers-8", _ => "workers-16" });
    if overlapping { classes.push("overlap-confirmed"); }
    if c.fresh { classes.push("fresh-docroot-and-server-concurrent-phase-first"); }
    if silent > 0 { classes.push("silent-peers-held"); }
    if c.fresh && c.layered { classes.push("layered-configuration-(file-overridden-by-command-line)"); }
    ctx.judge(problems, overlapping && distinct.len() >= 2, classes)
}

/// Ok(None): the queued request got the response it gets alone. Ok(Some(detail)): it got something else. Err: the probe could not be carried out.
pub fn long_queued_probe(docroot: &std::path::Path, wait_s: u64) -> Result<Option<String>, String> {
    let srv = Server::start(&ServerOpts::new(docroot, 1)).map_err(|e| format!("server start: {}", e))?;
    let req = b"GET /a.txt HTTP/1.1\r\nHost: localhost\r\n\r\n";
    let alone = srv.roundtrip(req, Duration::from_secs(10));
    if alone.outcome == Outcome::TimedOut { return Err("reference request timed out".to_string()); }
    let alone = normalise(&alone.bytes);
    let silent = srv.connect().map_err(|e| format!("connect: {}", e))?;
    std::thread::sleep(Duration::from_millis(30));
    let mut victim = srv.connect().map_err(|e| format!("connect: {}", e))?;
    victim.write_all(req).map_err(|e| e.to_string())?;
    std::thread::sleep(Duration::from_secs(wait_s));
    drop(silent);
    let ex = net::read_all(&mut victim, Duration::from_secs(10));
    if ex.outcome == Outcome::TimedOut && ex.bytes.is_empty() { return Err("the queued request was not answered within 10 s after the silent peer had gone".to_string()); }
    let got = normalise(&ex.bytes);
    Ok(if got == alone { None } else { Some(format!("{} bytes ({:?}) where the lone request gets {} bytes; begins {}", got.len(), ex.outcome, alone.len(), crate::fw::util::lossy(&got, 60))) })
}

pub fn run(ctx: &Ctx) {
    crate::fw::inproc::init_env();
    let tree = match fixed_docroot() { Ok(t) => t, Err(e) => { ctx.inconclusive(&format!("docroot: {}", e)); return; } };
    *ctx.max_shrink_iters.borrow_mut() = 100;
    let reqs = prop_oneof![3 => proptest::collection::vec(any::<u16>(), 2..12), 2 => proptest::collection::vec(any::<u16>(), 12..=64)];
    ctx.prop("inproc", ctx.share(ctx.scale(2400, 60_000)), (reqs.clone(), proptest::bool::weighted(0.2)).prop_map(|(requests, fresh)| InprocCase { requests, fresh }), |c| eval_inproc(ctx, c));
    let root = tree.root.clone();
    let nc = (prop::sample::select(vec![1u8, 2, 4, 8, 16]), 0u8..3, reqs, proptest::bool::weighted(0.3), any::<bool>(), prop_oneof![3 => Just(0u8), 2 => 1u8..4]).prop_map(|(workers, shape, requests, fresh, layered, silent)| NetCase { workers, shape, requests, fresh, layered, silent });
    // a request that waits in the queue for a long while (every worker is held by a silent peer) gets, once a worker is free, the response it would get alone:
    // one probe per native worker beside the other cases (quick: 11 s on worker 0; thorough: 11 / 21 / 41 / 61 s on workers 0..3)
    let wait_s: Option<u64> = if ctx.tier == Tier::Thorough { [11u64, 21, 41, 61].get(ctx.worker as usize).copied() } else if ctx.worker == 0 { Some(11) } else { None };
    let probe = wait_s.map(|w| { let root = root.clone(); std::thread::spawn(move || (w, long_queued_probe(&root, w))) });
    ctx.prop("network", ctx.share(ctx.scale(320, 12_000)), nc, |c| eval_net(ctx, &root, c));
    if let Some(h) = probe {
        ctx.set_section("queued-for-a-long-while");
        match h.join() {
            Ok((w, Ok(None))) => { let v = Verdict::passc(true, vec!["request-queued-behind-silent-peers-for-many-seconds"]); ctx.count(&v, crate::fw::hash64(&("long-queued", w)), || serde_json::json!({"queued_s": w})); }
            Ok((w, Ok(Some(detail)))) => { let v = ctx.judge(vec![("response-differs-after-waiting-in-the-queue".to_string(), format!("a request that waited {} s in the queue of a 1-worker server behind a silent peer: {}", w, detail))], true, vec!["request-queued-behind-silent-peers-for-many-seconds"]); ctx.count(&v, crate::fw::hash64(&("long-queued", w)), || serde_json::json!({"queued_s": w})); }
            Ok((_, Err(e))) => ctx.inconclusive(&format!("long-queued probe: {}", e)),
            Err(_) => ctx.inconclusive("long-queued probe thread panicked"),
        }
    }
    let _ = std::env::set_current_dir("/");
    drop(tree);
}

pub fn replay(ctx: &Ctx, section: &str, case: &Value) -> Verdict {
    crate::fw::inproc::init_env();
    let tree = match fixed_docroot() { Ok(t) => t, Err(e) => return Verdict::fail("replay-docroot-failed", e.to_string()) };
    if section == "inproc" { return match serde_json::from_value::<InprocCase>(case.clone()) { Ok(c) => eval_inproc(ctx, &c), Err(e) => Verdict::fail("replay-unreadable", e.to_string()) }; }
    match serde_json::from_value::<NetCase>(case.clone()) { Ok(c) => eval_net(ctx, &tree.root, &c), Err(e) => Verdict::fail("replay-unreadable", e.to_string()) }
}
