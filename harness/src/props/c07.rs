//! C07 — the worker pool runs every task exactly once, N at a time, without deadlock.
//! Primary engine: /verif/sched (the pool source on shuttle's primitives; seeded random and PCT schedulers).
//! Secondary engine (here): the pool on real std primitives, perturbed at its four event points (cfg rws_verif hooks).
use crate::fw::{hash64, Ctx, RunSpec, Tier, Verdict};
use crate::thread_pool::ThreadPool;
use proptest::prelude::*;
use serde::{Deserialize, Serialize};
use serde_json::{json, Value};
use std::sync::atomic::{AtomicU64, AtomicUsize, Ordering};
use std::sync::{Arc, Condvar, Mutex};
use std::time::Duration;

pub fn sched_bin() -> std::path::PathBuf { std::path::PathBuf::from(std::env::var("RWSV_SCHED_BIN").unwrap_or_else(|_| format!("{}/sched/target/release/rwsv-sched", crate::fw::verif_dir()))) }

pub fn spec(tier: Tier) -> RunSpec {
    let mut s = super::base_spec(
        4,
        "section schedules (shuttle engine, /verif/sched: the unmodified thread_pool source compiled against shuttle's thread / Arc / Mutex / mpsc): pool sizes N in 1..8, task lists of 0..4N tasks built from segments \
(non-blocking tasks: instant or long = k yields; a rendezvous group of width N that completes only if N tasks are inside simultaneously; one long task followed by a group of width N-1), submitted all at once or with yields in between, \
each configuration explored under 300 (quick) / 2000 (thorough) schedules of the seeded random scheduler or PCT with depth 1..4 - every lock, unlock, send, recv, spawn and yield is a scheduling point, a superset of the property's four points. \
Oracle per execution: every task counter is exactly 1 after the pool is dropped and all workers have returned; every rendezvous completes (shuttle reports the blocked-task set as a deadlock otherwise - a logical verdict, no timer). \
sections schedules-enumerated-completely / schedules-dfs-prefix (shuttle's depth-first scheduler on eleven small configurations x both submit patterns): a configuration whose enumeration ends below the cap (150 000 quick / 3 000 000 thorough executions) is decided for every schedule - all 1-worker pools with up to 2 tasks (5 to 128 860 schedules each) and the empty 2-worker pool; the 2- and 3-worker configurations contribute a systematic prefix of their schedule tree. section native (this harness): the pool on std primitives with seeded yields / micro-sleeps at the rws_verif event points (locked, received, finished, submit); asserts counters == 1 and trace well-formedness. \
evaluations = schedules executed; non-trivial = N >= 2, T >= N and at least one rendezvous group; distinct by (N, task list, submit pattern, scheduler, scheduler seed) - each such tuple stands for its 300 / 2000 schedules.",
        &["shuttle's primitives are API-compatible models of std's; the cfg(rws_verif_shuttle) hook adds a break when the job channel is closed so that executions terminate",
          "task lists are restricted to those a correct FIFO pool of N workers must complete (full groups are contiguous)",
          "schedules are sampled (random / PCT), not enumerated"],
        if tier == Tier::Quick { 900 } else { 14400 },
    );
    s.foreign_workers = Some((sched_bin(), 12));
    s.native_workers = Some(4);
    s
}

#[derive(Clone, Debug, Serialize, Deserialize)]
pub struct NativeCase { pub n: usize, pub tasks: Vec<u8>, pub perturb_seed: u64 }

struct Rendezvous { lock: Mutex<usize>, cv: Condvar, width: usize }
impl Rendezvous {
    fn wait(&self) -> bool {
        let mut g = self.lock.lock().unwrap();
        *g += 1;
        if *g >= self.width { self.cv.notify_all(); return true; }
        let deadline = std::time::Instant::now() + Duration::from_secs(20);
        while *g < self.width {
            let left = deadline.saturating_duration_since(std::time::Instant::now());
            if left.is_zero() { return false; }
            g = self.cv.wait_timeout(g, left).unwrap().0;
        }
        true
    }
}

/// tasks: 0 = instant, 1 = long, 2 = member of the (single) rendezvous group of width n placed contiguously
static NATIVE_POISONED: std::sync::atomic::AtomicBool = std::sync::atomic::AtomicBool::new(false);

pub fn eval_native(ctx: &Ctx, c: &NativeCase) -> Verdict {
    // after a run that did not complete, its workers may still emit events: nothing measured in this process is trustworthy any more
    if NATIVE_POISONED.load(Ordering::SeqCst) { return Verdict::pass(false); }
    let n = c.n.max(1);
    let t = c.tasks.len();
    let counters: Arc<Vec<AtomicUsize>> = Arc::new((0..t).map(|_| AtomicUsize::new(0)).collect());
    let trace: Arc<Mutex<Vec<(&'static str, usize)>>> = Arc::new(Mutex::new(vec![]));
    let seed = c.perturb_seed;
    let step = Arc::new(AtomicU64::new(0));
    {
        let trace = trace.clone(); let step = step.clone();
        crate::rws_verif_hooks::set_pool_event_callback(Some(Arc::new(move |kind: &'static str, id: usize| {
            let k = step.fetch_add(1, Ordering::SeqCst);
            trace.lock().unwrap().push((kind, id));
            match hash64(&(seed, kind, id, k)) % 8 { 0 | 1 => std::thread::yield_now(), 2 => std::thread::sleep(Duration::from_micros(50)), 3 => std::thread::sleep(Duration::from_micros(300)), _ => {} }
        })));
    }
    let width = c.tasks.iter().filter(|x| **x == 2).count();
    let rv = Arc::new(Rendezvous { lock: Mutex::new(0), cv: Condvar::new(), width });
    let (tx, rx) = std::sync::mpsc::channel::<(usize, bool)>();
    let pool = ThreadPool::new(n);
    for (i, kind) in c.tasks.iter().enumerate() {
        let counters = counters.clone(); let tx = tx.clone(); let rv = rv.clone(); let kind = *kind;
        pool.execute(move || {
            counters[i].fetch_add(1, Ordering::SeqCst);
            let ok = match kind { 1 => { for _ in 0..20 { std::thread::yield_now(); } true } 2 => rv.wait(), _ => true };
            let _ = tx.send((i, ok));
        });
    }
    drop(tx);
    let mut problems: Vec<(String, String)> = vec![];
    let mut reported = 0;
    let mut timed_out = false;
    for _ in 0..t {
        match rx.recv_timeout(Duration::from_secs(30)) {
            Ok((_, ok)) => { reported += 1; if !ok { timed_out = true; } }
            // every sender is gone although not every task has reported: a task (closure) was dropped without being run - a logical signal, not a timer
            Err(std::sync::mpsc::RecvTimeoutError::Disconnected) => { problems.push(("task-lost".to_string(), format!("native: {} of {} tasks reported, the others were dropped without being executed (N={})", reported, t, n))); break; }
            Err(std::sync::mpsc::RecvTimeoutError::Timeout) => { timed_out = true; break; }
        }
    }
    // every worker must have emitted its `finished` event before the callback is removed (the event comes after the task's report)
    if !timed_out {
        let deadline = std::time::Instant::now() + Duration::from_secs(10);
        while trace.lock().unwrap().iter().filter(|(k, _)| *k == "finished").count() < t && std::time::Instant::now() < deadline { std::thread::yield_now(); }
    }
    crate::rws_verif_hooks::set_pool_event_callback(None);
    // the pool is leaked on purpose: its workers stay blocked in recv (dropping it would make them spin on the closed channel).
    // Leaked threads add up over a worker's cases: the section is sized so that a worker process stays below a few thousand threads
    // (8000 thorough cases ran into EAGAIN from pthread_create on a loaded machine)
    std::mem::forget(pool);
    if timed_out {
        NATIVE_POISONED.store(true, Ordering::SeqCst);
        ctx.inconclusive(&format!("native pool run did not complete within the time limit (N={}, {} tasks, {} reported)", n, t, reported));
        return Verdict::Discard;
    }
    if !problems.is_empty() { NATIVE_POISONED.store(true, Ordering::SeqCst); return ctx.judge(problems, true, vec!["native-task-lost"]); }
    for i in 0..t { let k = counters[i].load(Ordering::SeqCst); if k != 1 { problems.push((if k == 0 { "task-lost".to_string() } else { "task-executed-more-than-once".to_string() }, format!("native: task {} executed {} times (N={}, {} tasks)", i, k, n, t))); break; } }
    // trace well-formedness per worker: received -> finished alternate
    let tr = trace.lock().unwrap().clone();
    let mut open = std::collections::HashMap::new();
    for (kind, id) in tr.iter() {
        match *kind {
            "received" => { if open.insert(*id, true) == Some(true) { problems.push(("worker-received-while-running".into(), format!("worker {} received a task before finishing the previous one", id))); break; } }
            "finished" => { if open.insert(*id, false) != Some(true) { problems.push(("finished-without-received".into(), format!("worker {}", id))); break; } }
            _ => {}
        }
    }
    let received = tr.iter().filter(|(k, _)| *k == "received").count();
    if problems.is_empty() && received != t { problems.push(("received-events-differ-from-task-count".into(), format!("{} received events for {} tasks", received, t))); }
    ctx.judge(problems, n >= 2 && t >= n && width > 0, vec![if width > 0 { "native-with-rendezvous" } else { "native-plain" }])
}

fn native_strategy() -> impl Strategy<Value = NativeCase> {
    (1usize..=8).prop_flat_map(|n| (Just(n), proptest::collection::vec(0u8..2, 0..=n), any::<bool>(), proptest::collection::vec(0u8..2, 0..=2 * n), any::<u64>()))
        .prop_map(|(n, mut head, group, mut tail, perturb_seed)| { if group { for _ in 0..n { head.push(2); } } head.append(&mut tail); NativeCase { n, tasks: head, perturb_seed } })
}

pub fn run(ctx: &Ctx) {
    *ctx.max_shrink_iters.borrow_mut() = 40;
    ctx.prop("native", ctx.share(ctx.scale(240, 2400)), native_strategy(), |c| eval_native(ctx, c));
    // pools left idle: short gaps on every worker; one long gap per native worker (quick: 6.5 s on worker 0; thorough: 6.5 / 16 / 31 / 61 s) - a worker that
    // gives up waiting for work after some interval is only seen by a pool that has been idle for longer than that
    ctx.set_section("native-after-idle");
    let mut cases: Vec<IdleCase> = vec![];
    for (i, ms) in [0u64, 5, 50, 300, 1100].iter().enumerate() { cases.push(IdleCase { n: 2 + (i + ctx.worker as usize) % 4, warm: i % 3, idle_ms: *ms }); }
    let long: Option<u64> = if ctx.tier == Tier::Thorough { [6500u64, 16_000, 31_000, 61_000].get(ctx.worker as usize).copied() } else if ctx.worker == 0 { Some(6500) } else { None };
    if let Some(ms) = long { cases.push(IdleCase { n: 3, warm: 2, idle_ms: ms }); cases.push(IdleCase { n: 2, warm: 0, idle_ms: ms }); }
    // the long cases of one worker run side by side (they sleep most of the time)
    let verdicts: Vec<(IdleCase, Verdict)> = std::thread::scope(|sc| { let hs: Vec<_> = cases.iter().map(|c| { let c = c.clone(); sc.spawn(move || { let v = match idle_round(&c) { Some(true) => None, _ => Some(()) }; (c, v) }) }).collect(); hs.into_iter().map(|h| h.join().unwrap()).map(|(c, suspicious)| { let v = if suspicious.is_none() { Verdict::passc(true, vec!["native-after-idle"]) } else { eval_idle(ctx, &c) }; (c, v) }).collect() });
    for (c, v) in verdicts { let cc = c.clone(); ctx.count(&v, hash64(&format!("{:?}", c)), || serde_json::to_value(&cc).unwrap()); }
}

/// A pool that has been idle for `idle_ms` (nothing submitted since it was built, or since `warm` instant tasks finished) must still run N tasks at a
/// time. N-1 tasks block on a gate the harness holds; one more task only reports. Causal verdict, no timer decides: the report arrives while the gate
/// is closed (pass); or it arrives only after the gate has been opened - it waited behind the blocked tasks although a worker should have been free -
/// seen on two pools in a row (violation); anything else is inconclusive.
#[derive(Clone, Debug, Serialize, Deserialize)]
pub struct IdleCase { pub n: usize, pub warm: usize, pub idle_ms: u64 }

struct Gate { open: Mutex<bool>, cv: Condvar }

fn idle_round(c: &IdleCase) -> Option<bool> {
    let n = c.n.max(2);
    let pool = ThreadPool::new(n);
    let (wtx, wrx) = std::sync::mpsc::channel::<()>();
    for _ in 0..c.warm { let wtx = wtx.clone(); pool.execute(move || { let _ = wtx.send(()); }); }
    for _ in 0..c.warm { if wrx.recv_timeout(Duration::from_secs(30)).is_err() { std::mem::forget(pool); return None; } }
    std::thread::sleep(Duration::from_millis(c.idle_ms));
    let gate = Arc::new(Gate { open: Mutex::new(false), cv: Condvar::new() });
    let (tx, rx) = std::sync::mpsc::channel::<usize>();
    for i in 0..n - 1 {
        let gate = gate.clone(); let tx = tx.clone();
        pool.execute(move || { let mut g = gate.open.lock().unwrap(); let deadline = std::time::Instant::now() + Duration::from_secs(60); while !*g { let left = deadline.saturating_duration_since(std::time::Instant::now()); if left.is_zero() { break; } g = gate.cv.wait_timeout(g, left).unwrap().0; } drop(g); let _ = tx.send(i); });
    }
    { let tx = tx.clone(); pool.execute(move || { let _ = tx.send(usize::MAX); }); }
    drop(tx);
    // phase 1: the gate is closed; only the reporting task can answer
    let first = rx.recv_timeout(Duration::from_secs(5));
    *gate.open.lock().unwrap() = true; gate.cv.notify_all();
    let verdict = match first {
        Ok(usize::MAX) => Some(true),
        Ok(_) => None, // a gated task reported before the gate was opened: the harness's own gate failed
        Err(_) => {
            // phase 2: gate open - does the report arrive now?
            let mut seen = false;
            let deadline = std::time::Instant::now() + Duration::from_secs(20);
            while let Ok(v) = rx.recv_timeout(deadline.saturating_duration_since(std::time::Instant::now()).max(Duration::from_millis(1))) { if v == usize::MAX { seen = true; break; } }
            if seen { Some(false) } else { None }
        }
    };
    // let the gated tasks finish before the pool is leaked (its workers stay blocked in recv)
    let deadline = std::time::Instant::now() + Duration::from_secs(5);
    while rx.recv_timeout(deadline.saturating_duration_since(std::time::Instant::now()).max(Duration::from_millis(1))).is_ok() {}
    std::mem::forget(pool);
    verdict
}

pub fn eval_idle(ctx: &Ctx, c: &IdleCase) -> Verdict {
    if NATIVE_POISONED.load(Ordering::SeqCst) { return Verdict::pass(false); }
    crate::rws_verif_hooks::set_pool_event_callback(None);
    match idle_round(c) {
        Some(true) => Verdict::passc(true, vec!["native-after-idle"]),
        Some(false) => match idle_round(c) {
            Some(false) => ctx.judge(vec![("task-waited-behind-blocked-tasks-after-idle".to_string(), format!("pool of {} workers, {} warm-up tasks, then idle for {} ms: with {} tasks blocked on a gate the one remaining task was executed only after the gate had been opened (observed on two pools in a row) - fewer than {} tasks run at a time", c.n, c.warm, c.idle_ms, c.n - 1, c.n))], true, vec!["native-after-idle"]),
            Some(true) => { ctx.inconclusive("idle-pool observation was not repeatable"); Verdict::Discard }
            None => { ctx.inconclusive("idle-pool run did not complete"); Verdict::Discard }
        },
        None => { ctx.inconclusive("idle-pool run did not complete"); Verdict::Discard }
    }
}

/// Replay: native cases here; shuttle cases through the sched binary (schedule string + configuration).
pub fn replay(ctx: &Ctx, section: &str, case: &Value) -> Verdict {
    if section == "native-after-idle" { return match serde_json::from_value::<IdleCase>(case.clone()) { Ok(c) => eval_idle(ctx, &c), Err(e) => Verdict::fail("replay-unreadable", e.to_string()) }; }
    if section == "native" { return match serde_json::from_value::<NativeCase>(case.clone()) { Ok(c) => eval_native(ctx, &c), Err(e) => Verdict::fail("replay-unreadable", e.to_string()) }; }
    replay_sched(ctx, section, case)
}

pub fn replay_sched(ctx: &Ctx, section: &str, case: &Value) -> Verdict {
    let f = ctx.dir.join(format!("sched-replay-{}.json", std::process::id()));
    if std::fs::write(&f, serde_json::to_vec(&json!({"section": section, "case": case})).unwrap()).is_err() { return Verdict::fail("replay-io", "cannot write case file".to_string()); }
    let out = std::process::Command::new(sched_bin()).arg("replay-case").arg(&f).stderr(std::process::Stdio::null()).output();
    let _ = std::fs::remove_file(&f);
    match out {
        Err(e) => Verdict::fail("replay-sched-binary-missing", e.to_string()),
        Ok(o) => {
            let text = String::from_utf8_lossy(&o.stdout).to_string();
            if let Some(l) = text.lines().find(|l| l.starts_with("REPLAY-FAIL sig=")) {
                let rest = &l["REPLAY-FAIL sig=".len()..];
                let (sig, detail) = rest.split_once(' ').unwrap_or((rest, ""));
                return Verdict::fail(sig.to_string(), detail.to_string());
            }
            if text.contains("REPLAY-PASS") { Verdict::pass(true) } else { Verdict::fail("replay-sched-no-verdict", format!("exit {:?}", o.status.code())) }
        }
    }
}
