//! C02 — static resources: the right file, its exact bytes, its media type.
use crate::fw::inproc::{self, AppKind, Entry};
use crate::fw::mock::Transport;
use crate::fw::tree::{lookup, mime_candidates, tree_strategy, Selected, Tree, TreeSpec};
use crate::fw::{hash64, mhttp, Ctx, RunSpec, Tier, Verdict};
use serde::{Deserialize, Serialize};
use serde_json::{json, Value};

pub fn spec(tier: Tier) -> RunSpec {
    super::base_spec(
        8,
        "generated document trees (G-TREE: nested directories with/without index.html, empty files, binary content with every byte value, sizes around 4096/8192/10000/65536, names with several dots, no extension, upper-case \
extensions, non-ASCII letters, symlinks to files, to directories, chains, owner links to outside files/directories) x every request path derived from the tree: each file, each directory with and without trailing slash, \
each X.html as /X, the special routes, and near misses (missing name, doubled slash, slash after a file, letter-case change, name prefix), each with the suffixes '', '?q=1', '#f', '?a=b#c'. \
Oracle M-LOOKUP (std::fs on the materialised tree) + M-MIME (harness's transcription of the extension table): selected file -> 200, body byte-identical, Content-Length = size, Content-Type = type of the selected name; \
nothing selected -> 404 without any other tree file's marker and without the directory's entry names; suffix variants equal the plain response modulo the timestamp; legacy entry point agrees on plain files. \
 A quarter of the trees are served by the real release binary over loopback (class served-by-the-real-binary), the rest by Server::process on the mock transport; same oracle. After the first pass the tree is edited while the server is up (one file rewritten with another length, one deleted, files created at two paths that were answered 404) and the affected paths are requested again against the disk as it is then. Non-trivial = selected through directory index, .html fallback or symlink, a file >= 8 KiB, an empty file, a non-ASCII name, or a near miss; distinct by (tree, path); counted per request.",
        &["tolerances: a directory without index whose name + '.html' exists may answer 404 or that file; doubled slashes and a slash after a file may answer the file or 404; a symlink may be typed by its own or its target's extension; \
an extension in other letter case may be typed by the table's lower-case entry or as octet-stream; .oga may be audio/oga (rws's constant) or audio/ogg"],
        if tier == Tier::Quick { 900 } else { 14400 },
    )
}

#[derive(Clone, Debug, Serialize, Deserialize)]
pub struct Case { pub tree: TreeSpec, pub only_path: Option<String>,
    /// the production-entry requests of this tree go to the real binary (started in the tree's root) instead of Server::process on the mock transport
    #[serde(default)] pub binary: bool }

pub const SUFFIXES: [&str; 4] = ["", "?q=1", "#f", "?a=b#c"];

fn get(path: &str, entry: Entry) -> (Vec<u8>, Result<Result<(), String>, (String, String)>) {
    let o = inproc::serve_routed(&inproc::get(path), true, entry); // through the binary whenever check_tree has started one
    (o.out, o.result)
}

pub fn derive_paths(t: &Tree) -> Vec<(String, &'static str)> {
    let mut v: Vec<(String, &'static str)> = vec![];
    v.push(("/".into(), "special"));
    for s in ["/style.css", "/script.js", "/favicon.svg"] {
        v.push((s.into(), "special"));
        // longer names that begin with a special route's name are ordinary lookups
        for tail in ["x", ".map", ".gz", "/", "/x.txt", "on"] { v.push((format!("{}{}", s, tail), "near-miss-longer-than-special")); }
    }
    for f in &t.files {
        v.push((f.url.clone(), "file"));
        if let Some(stem) = f.url.strip_suffix(".html") { if !stem.ends_with('/') { v.push((stem.to_string(), "html-fallback")); } }
        v.push((format!("{}/", f.url), "near-miss-slash-after-file"));
        // doubled slash
        if let Some(p) = f.url.rfind('/') { v.push((format!("{}//{}", &f.url[..p], &f.url[p + 1..]), "near-miss-doubled-slash")); }
        // case change of the last letter
        let flipped: String = { let mut cs: Vec<char> = f.url.chars().collect(); if let Some(i) = cs.iter().rposition(|c| c.is_ascii_alphabetic()) { cs[i] = if cs[i].is_ascii_lowercase() { cs[i].to_ascii_uppercase() } else { cs[i].to_ascii_lowercase() }; } cs.into_iter().collect() };
        if flipped != f.url { v.push((flipped, "near-miss-case")); }
        // name prefix (one char shorter) and one char longer
        let mut shorter = f.url.clone(); shorter.pop(); if shorter.len() > 1 && !shorter.ends_with('/') { v.push((shorter, "near-miss-shorter")); }
        v.push((format!("{}x", f.url), "near-miss-longer"));
    }
    for d in &t.dirs {
        if d.url == "/" { continue; }
        v.push((d.url.clone(), "dir"));
        v.push((format!("{}/", d.url), "dir-slash"));
        v.push((format!("{}/missing-entry.txt", d.url), "near-miss-missing"));
    }
    v.push(("/missing-entry".into(), "near-miss-missing"));
    v.push(("/missing-dir/missing.html".into(), "near-miss-missing"));
    // a '#' or '?' inside a name ends the path of a raw request target: such entries cannot be addressed (the suffix variants add their own)
    v.retain(|(p, _)| !p.contains('#') && !p.contains('?'));
    v.sort(); v.dedup();
    v
}

fn body_of(out: &[u8]) -> Option<(mhttp::Resp, Vec<u8>)> { mhttp::parse(out).ok().map(|r| { let b = r.body.clone(); (r, b) }) }

pub fn check_tree(ctx: &Ctx, c: &Case, count: bool) -> Verdict {
    let tree = match Tree::materialise(&c.tree, &crate::fw::scratch_base()) { Ok(t) => t, Err(e) => return Verdict::fail("tree-materialisation-failed", e.to_string()) };
    if std::env::set_current_dir(&tree.root).is_err() { return Verdict::fail("chdir-failed", "".to_string()); }
    if c.binary { if let Err(e) = inproc::binary_start(&tree.root) { ctx.inconclusive(&format!("real binary did not start: {}", e)); } }
    let builtin_404 = body_of(&get("/surely-missing-rwsv-probe", Entry::Process).0).map(|(_, b)| b).unwrap_or_default();
    let markers: Vec<(String, String)> = tree.files.iter().map(|f| (f.url.clone(), f.marker.clone())).collect();
    let paths = derive_paths(&tree);
    let mut problems: Vec<(String, String)> = vec![];
    let mut evals = 0u64; let mut nontrivial = 0u64;
    let mut classes: std::collections::BTreeMap<&'static str, u64> = Default::default();
    // second phase: the tree is edited while the server is up (a file rewritten with another length, a file deleted, files created where the first phase
    // was answered 404) and the affected paths are requested again - the oracle reads the disk as it is at that moment
    let mut work: Vec<(String, &'static str)> = paths.clone();
    let mut next = 0usize;
    let mut edited = c.only_path.is_some();
    'outer: loop {
        if next == work.len() {
            if edited { break; }
            edited = true;
            let salt = c.tree.salt;
            let regular: Vec<&crate::fw::tree::TFile> = tree.files.iter().filter(|f| f.kind == "file" && !f.url.contains('#') && !f.url.contains('?')).collect();
            if !regular.is_empty() {
                let f = regular[(salt % regular.len() as u64) as usize];
                let old_len = std::fs::metadata(tree.abs(&f.url)).map(|m| m.len()).unwrap_or(0) as usize;
                let text = format!("RWSV-EDIT-{:x}-rewritten ", salt).repeat(1 + (old_len / 20 + 3) % 400);
                if std::fs::write(tree.abs(&f.url), text).is_ok() { work.push((f.url.clone(), "after-edit-rewritten")); if let Some(stem) = f.url.strip_suffix(".html") { if !stem.ends_with('/') { work.push((stem.to_string(), "after-edit-rewritten")); } } }
                if regular.len() >= 2 {
                    let g = regular[((salt >> 8) % regular.len() as u64) as usize];
                    if g.url != f.url && std::fs::remove_file(tree.abs(&g.url)).is_ok() { work.push((g.url.clone(), "after-edit-deleted")); if let Some(stem) = g.url.strip_suffix(".html") { if !stem.ends_with('/') { work.push((stem.to_string(), "after-edit-deleted")); } } }
                }
            }
            if std::fs::write(tree.abs("/missing-entry"), format!("RWSV-EDIT-{:x}-created", salt)).is_ok() { work.push(("/missing-entry".into(), "after-edit-created")); }
            if std::fs::create_dir_all(tree.abs("/missing-dir")).is_ok() && std::fs::write(tree.abs("/missing-dir/missing.html"), format!("<p>RWSV-EDIT-{:x}-created-page</p>", salt)).is_ok() {
                work.push(("/missing-dir/missing.html".into(), "after-edit-created")); work.push(("/missing-dir/missing".into(), "after-edit-created"));
            }
            continue;
        }
        let (path, kind) = { let (p, k) = &work[next]; (&p.clone(), &*k) };
        next += 1;
        if let Some(only) = &c.only_path { if only != path { continue; } }
        let sel = lookup(&tree.root, path);
        let (plain_out, plain_res) = get(path, Entry::Process);
        evals += 1;
        *classes.entry(kind).or_insert(0) += 1;
        if c.binary { *classes.entry("served-by-the-real-binary").or_insert(0) += 1; }
        if let Err((m, loc)) = &plain_res { problems.push((format!("panic:{}:{}", super::common::panic_module(loc), m), format!("GET {} panicked at {}", path, loc))); break 'outer; }
        let (resp, body) = match body_of(&plain_out) { Some(x) => x, None => { problems.push(("unparseable-response".into(), format!("GET {}", path))); break 'outer; } };
        let mut nt = kind.starts_with("near-miss") || kind.starts_with("after-edit");
        // tolerance sets
        let dir_without_index_with_html = matches!(sel, Selected::Nothing) && { let p = tree.abs(path.trim_end_matches('/')); p.is_dir() && std::path::PathBuf::from(format!("{}.html", p.display())).is_file() };
        let slash_variants = *kind == "near-miss-slash-after-file" || *kind == "near-miss-doubled-slash";
        let mut acceptable: Vec<Selected> = vec![sel.clone()];
        if dir_without_index_with_html { acceptable.push(Selected::File { path: std::path::PathBuf::from(format!("{}.html", tree.abs(path.trim_end_matches('/')).display())), rule: "html-fallback" }); }
        if slash_variants {
            acceptable.push(Selected::Nothing);
            let collapsed = { let mut s = path.clone(); while s.contains("//") { s = s.replace("//", "/"); } s.trim_end_matches('/').to_string() };
            acceptable.push(lookup(&tree.root, &collapsed));
        }
        let mut matched = false;
        let mut why = String::new();
        for a in &acceptable {
            match a {
                Selected::File { path: fp, rule } => {
                    let want = match std::fs::read(fp) { Ok(b) => b, Err(_) => continue };
                    if resp.status != 200 { why = format!("status {} where {} selects {} ({} bytes)", resp.status, rule, fp.display(), want.len()); continue; }
                    if body != want { why = format!("body differs from {} selected by {}: {} bytes served, file has {}", fp.display(), rule, body.len(), want.len()); continue; }
                    if resp.get("Content-Length").and_then(|v| v.parse::<usize>().ok()) != Some(want.len()) { why = format!("Content-Length {:?} for a {}-byte file", resp.get("Content-Length"), want.len()); continue; }
                    let name = fp.file_name().map(|s| s.to_string_lossy().to_string()).unwrap_or_default();
                    let mut cands = mime_candidates(&name);
                    if let Ok(real) = std::fs::canonicalize(fp) { if let Some(n) = real.file_name() { for m in mime_candidates(&n.to_string_lossy()) { if !cands.contains(&m) { cands.push(m); } } } }
                    // intermediate link names (chains) may also name the type
                    if let Ok(t1) = std::fs::read_link(fp) { if let Some(n) = t1.file_name() { for m in mime_candidates(&n.to_string_lossy()) { if !cands.contains(&m) { cands.push(m); } } } }
                    let ct = resp.get("Content-Type").unwrap_or("");
                    if !cands.contains(&ct) { why = format!("Content-Type {:?} for {} (registered: {:?})", ct, name, cands); problems.push(("wrong-media-type".into(), format!("GET {}: {}", path, why))); break 'outer; }
                    matched = true;
                    if *rule != "file" && *rule != "asset" { nt = true; }
                    if want.is_empty() || want.len() >= 8192 || !path.is_ascii() { nt = true; }
                    if std::fs::symlink_metadata(fp).map(|m| m.file_type().is_symlink()).unwrap_or(false) || std::fs::canonicalize(fp).map(|r| r != *fp).unwrap_or(false) { nt = true; *classes.entry("via-symlink").or_insert(0) += 1; }
                    *classes.entry(match *rule { "dir-index" => "selected-dir-index", "html-fallback" => "selected-html-fallback", "root-index" => "selected-root-index", _ => "selected-file" }).or_insert(0) += 1;
                    if want.is_empty() { *classes.entry("empty-file").or_insert(0) += 1; }
                    if want.len() >= 8192 { *classes.entry("file>=8KiB").or_insert(0) += 1; }
                    break;
                }
                Selected::BuiltIn(which) => {
                    let want_ct = match *which { "index" => "text/html", "style.css" => "text/css", "script.js" => "text/javascript", _ => "image/svg+xml" };
                    if resp.status != 200 { why = format!("status {} for the built-in {}", resp.status, which); continue; }
                    if resp.get("Content-Type") != Some(want_ct) { why = format!("built-in {} typed {:?}", which, resp.get("Content-Type")); continue; }
                    if body.is_empty() || markers.iter().any(|(_, m)| crate::fw::util::contains_sub(&body, m.as_bytes())) { why = format!("built-in {} body is empty or holds a tree file", which); continue; }
                    matched = true; *classes.entry("built-in").or_insert(0) += 1;
                    break;
                }
                Selected::Nothing => {
                    if resp.status != 404 { why = format!("status {} ({} body bytes) where the lookup selects nothing", resp.status, body.len()); continue; }
                    // never another file's content, never a listing
                    let custom404 = tree.root.join("404.html");
                    let allowed: Option<Vec<u8>> = std::fs::read(&custom404).ok();
                    if let Some((u, _)) = markers.iter().find(|(u, m)| m.len() > 20 && crate::fw::util::contains_sub(&body, m.as_bytes()) && !(u == "/404.html")) {
                        if allowed.as_deref() != Some(&body[..]) { problems.push(("not-found-body-holds-another-file".into(), format!("GET {} -> 404 whose body contains the marker of {}", path, u))); break 'outer; }
                    }
                    let dir = tree.abs(path.trim_end_matches('/'));
                    if dir.is_dir() {
                        if let Ok(rd) = std::fs::read_dir(&dir) {
                            for n in rd.filter_map(|e| e.ok()).map(|e| e.file_name().to_string_lossy().to_string()).filter(|n| n.len() >= 6) {
                                if crate::fw::util::contains_sub(&body, n.as_bytes()) && !crate::fw::util::contains_sub(&builtin_404, n.as_bytes()) && allowed.as_deref().map(|a| !crate::fw::util::contains_sub(a, n.as_bytes())).unwrap_or(true) {
                                    problems.push(("not-found-body-lists-directory-entry".into(), format!("GET {} -> 404 body names the entry {:?}", path, n))); break 'outer;
                                }
                            }
                        }
                        *classes.entry("dir-without-index").or_insert(0) += 1; nt = true;
                    }
                    matched = true; *classes.entry("selected-nothing").or_insert(0) += 1;
                    break;
                }
            }
        }
        if !matched && slash_variants && (400..500).contains(&resp.status) && !markers.iter().any(|(_, m)| m.len() > 20 && crate::fw::util::contains_sub(&body, m.as_bytes())) {
            // doubled slashes / a slash after a file are left open by the statement: a client-error status (4xx; a 5xx says the server failed, which no lookup outcome is) without any file's content is accepted
            // (observed: a doubled slash in front of a relative symlink is answered 416, the manual link resolution is one level off)
            matched = true;
            if count { ctx.note(if resp.status == 404 { "slash-variant-answered-404" } else { "slash-variant-answered-other-4xx" }); }
        }
        if !matched {
            let sig = match (&sel, resp.status) {
                (Selected::File { rule, .. }, 404) => format!("servable-path-answered-404:{}", rule),
                (Selected::File { .. }, 200) => "wrong-bytes-or-length".to_string(),
                (Selected::Nothing, 200) => "unselected-path-answered-200".to_string(),
                (Selected::BuiltIn(_), _) => "built-in-route-wrong".to_string(),
                (_, s) => format!("unexpected-status-{}", s),
            };
            problems.push((sig, format!("GET {} ({}): {}", path, kind, why)));
            break 'outer;
        }
        // metamorphic: query and fragment do not affect the lookup
        let plain_masked = super::c05::mask_timestamp(&plain_out);
        for suf in &SUFFIXES[1..] {
            let p2 = format!("{}{}", path, suf);
            let (o2, r2) = get(&p2, Entry::Process);
            evals += 1;
            if let Err((m, loc)) = &r2 { problems.push((format!("panic:{}:{}", super::common::panic_module(loc), m), format!("GET {} panicked at {}", p2, loc))); break 'outer; }
            if super::c05::mask_timestamp(&o2) != plain_masked {
                let s2 = mhttp::parse(&o2).map(|r| r.status).unwrap_or(0);
                let special = *kind == "special";
                problems.push((if special { "query-changes-lookup-on-special-route".to_string() } else { "query-or-fragment-changes-lookup".to_string() }, format!("GET {} -> status {}, GET {} -> status {}", path, resp.status, p2, s2)));
                if !(special && ctx.known.is_known(&ctx.property, "query-changes-lookup-on-special-route")) { break 'outer; }
            }
        }
        // legacy entry point agrees on plain regular files
        if let (Selected::File { rule: "file", path: fp }, "file") = (&sel, *kind) {
            let (lo, lr) = get(path, Entry::Legacy);
            evals += 1;
            if let Err((m, loc)) = &lr { problems.push((format!("panic:legacy:{}:{}", super::common::panic_module(loc), m), format!("legacy GET {} panicked at {}", path, loc))); break 'outer; }
            if let Some((lresp, lbody)) = body_of(&lo) {
                let want = std::fs::read(fp).unwrap_or_default();
                if lresp.status != 200 || lbody != want { problems.push(("legacy-entry-differs-on-plain-file".into(), format!("legacy GET {} -> status {}, {} body bytes; file has {}", path, lresp.status, lbody.len(), want.len()))); break 'outer; }
            }
        }
        if nt { nontrivial += 1; if count { ctx.nontrivial.borrow_mut().insert(hash64(&(hash64(&format!("{:?}", c.tree)), path.clone()))); } }
        if count && nt { ctx.sample(kind, || json!({"path": path, "derived_as": kind, "lookup": format!("{:?}", sel).replace(&tree.root.display().to_string(), "<root>"), "status": resp.status, "content_type": resp.get("Content-Type"), "body_bytes": body.len()})); }
    }
    if count {
        let mut r = ctx.res.borrow_mut();
        r.evaluations += evals.saturating_sub(1); // the tree case itself is counted once by the driver
        for (k, v) in classes { *r.classes.entry(k.to_string()).or_insert(0) += v; }
        *r.sections.entry("requests".into()).or_insert(0) += evals;
    }
    let _ = nontrivial;
    inproc::binary_stop();
    for t in inproc::binary_trouble() { ctx.inconclusive(&format!("exchange with the real binary did not complete: {}", t)); }
    let _ = std::env::set_current_dir("/");
    ctx.judge(problems, false, vec![])
}

pub fn run(ctx: &Ctx) {
    crate::fw::inproc::init_env();
    *ctx.auto_sample.borrow_mut() = false;
    let strat = {
        use proptest::prelude::*;
        (tree_strategy(ctx.tier == Tier::Thorough), proptest::bool::weighted(0.25)).prop_map(|(tree, binary)| Case { tree, only_path: None, binary })
    };
    ctx.prop("trees", ctx.share(ctx.scale(128, 3000)), strat, |c| check_tree(ctx, c, !*ctx.shrinking.borrow()));
}

pub fn replay(ctx: &Ctx, _section: &str, case: &Value) -> Verdict {
    crate::fw::inproc::init_env();
    match serde_json::from_value::<Case>(case.clone()) { Ok(c) => check_tree(ctx, &c, false), Err(e) => Verdict::fail("replay-unreadable", e.to_string()) }
}
