//! C13 — the server never modifies the files it serves (invariant over request histories: filesystem manifest).
use super::common::*;
use crate::fw::inproc::{self, AppKind, Entry};
use crate::fw::mock::Transport;
use crate::fw::net::{Server, ServerOpts};
use crate::fw::tree::{tree_strategy, Tree, TreeSpec};
use crate::fw::util::{hex, pick_idx, sha256, Bytes};
use crate::fw::{Ctx, RunSpec, Tier, Verdict};
use proptest::prelude::*;
use serde::{Deserialize, Serialize};
use serde_json::Value;
use std::collections::BTreeMap;
use std::os::unix::fs::MetadataExt;
use std::time::Duration;

pub fn spec(tier: Tier) -> RunSpec {
    let mut s = super::base_spec(
        8,
        "request sequences of 1..200 operations against a generated document tree (G-TREE incl. ancestors, sibling directories and owner-linked outside area), through the real binary over loopback and through Server::process in-process: \
G-REQ mutants, PUT / DELETE / PATCH / POST / TRACE / CONNECT on every existing path, on new names and on traversal targets, multipart uploads whose filename= names a tree file, /file-upload/initiate with file metadata, \
url-encoded bodies with path= / name= fields naming tree files. Invariant over the history: the manifest (relative path, type, size, SHA-256, symlink target, mode, mtime) of everything under the scratch base - the served tree, every ancestor level, \
sibling directories and the linked area - is identical before and after. Thorough tier additionally runs the binary under strace -f -e trace=%file and requires that no open with a write/create/truncate flag and no unlink/rename/mkdir/rmdir/symlink/link/chmod/truncate succeeds on a path under the scratch base. \
Non-trivial = the sequence contains a state-changing method aimed at an existing file; distinct by sequence.",
        &["atime is not part of the manifest", "the server's own stdout log is redirected outside the scratch base by the harness"],
        if tier == Tier::Quick { 900 } else { 14400 },
    );
    s.case_limit_s = 300;
    s
}

#[derive(Clone, Debug, Serialize, Deserialize)]
pub enum Op {
    Method { method: u8, target: u16, body: u8 },
    Upload { file: u16, #[serde(default)] spell: u8 },
    Initiate { file: u16, #[serde(default)] spell: u8 },
    FormPath { file: u16, #[serde(default)] spell: u8 },
    /// GET / HEAD of a tree file with a Range header (single, several, several with one that cannot be honoured, malformed); `big` prefers the largest file
    Ranged { file: u16, spec: u8, big: bool },
    Mutant(Bytes),
}

#[derive(Clone, Debug, Serialize, Deserialize)]
pub struct Case { pub tree: TreeSpec, pub net: bool, pub ops: Vec<Op>,
    /// (network route) after the sequence the served directory is removed by a third party while the server runs, and a few more requests arrive
    #[serde(default)] pub vanish: bool }

pub const METHODS: [&str; 9] = ["PUT", "DELETE", "PATCH", "POST", "GET", "HEAD", "OPTIONS", "TRACE", "CONNECT"];

pub fn manifest(base: &std::path::Path) -> BTreeMap<String, String> {
    fn walk(dir: &std::path::Path, base: &std::path::Path, out: &mut BTreeMap<String, String>) {
        let rd = match std::fs::read_dir(dir) { Ok(r) => r, Err(_) => return };
        for e in rd.filter_map(|e| e.ok()) {
            let p = e.path();
            let rel = p.strip_prefix(base).map(|r| r.to_string_lossy().to_string()).unwrap_or_default();
            let md = match std::fs::symlink_metadata(&p) { Ok(m) => m, Err(_) => continue };
            let ft = md.file_type();
            let desc = if ft.is_symlink() { format!("link -> {}", std::fs::read_link(&p).map(|t| t.to_string_lossy().to_string()).unwrap_or_default()) }
                else if ft.is_dir() { format!("dir mode={:o} mtime={}.{}", md.mode() & 0o7777, md.mtime(), md.mtime_nsec()) }
                else { format!("file size={} sha256={} mode={:o} mtime={}.{}", md.len(), hex(&sha256(&std::fs::read(&p).unwrap_or_default())), md.mode() & 0o7777, md.mtime(), md.mtime_nsec()) };
            out.insert(rel, desc);
            if ft.is_dir() { walk(&p, base, out); }
        }
    }
    let mut m = BTreeMap::new();
    walk(base, base, &mut m);
    m
}

fn render(tree: &Tree, op: &Op) -> Vec<u8> {
    let file_url = |i: u16| -> String { if tree.files.is_empty() { "/nothing".into() } else { tree.files[pick_idx(i, tree.files.len())].url.clone() } };
    // the ways a client-supplied *name* can point at an existing file: relative to the served directory (spell 0), absolute (1), relative to the
    // system's temporary directory where upload scratch files usually live (2), climbing to the filesystem root with "../" (3), relative to the
    // served directory's parent (4); the file is one of the tree's files or (odd selector) one of the secrets outside the served directory
    let named = |i: u16, spell: u8| -> String {
        let abs: std::path::PathBuf = if i % 2 == 1 && !tree.secrets.is_empty() { tree.secrets[pick_idx(i, tree.secrets.len())].abs.clone() } else { tree.abs(&file_url(i)) };
        let a = abs.to_string_lossy().to_string();
        let rel_to = |base: &std::path::Path| -> String {
            let f: Vec<_> = base.components().collect(); let t: Vec<_> = abs.components().collect();
            let mut k = 0; while k < f.len() && k < t.len() && f[k] == t[k] { k += 1; }
            let mut r = std::path::PathBuf::new(); for _ in k..f.len() { r.push(".."); } for c in &t[k..] { r.push(c.as_os_str()); }
            r.to_string_lossy().to_string()
        };
        match spell % 5 {
            0 => file_url(i).trim_start_matches('/').to_string(),
            1 => a,
            2 => rel_to(&std::env::temp_dir()),
            3 => format!("{}{}", "../".repeat(12), a.trim_start_matches('/')),
            _ => rel_to(tree.root.parent().unwrap_or(&tree.root)),
        }
    };
    match op {
        Op::Mutant(b) => b.0.clone(),
        Op::Method { method, target, body } => {
            let m = METHODS[*method as usize % METHODS.len()];
            // targets: every file, every directory, every "<name>" that is served through the <name>.html fallback, and four names that do not exist
            let stems: Vec<String> = tree.files.iter().filter_map(|f| f.url.strip_suffix(".html").map(|s| s.to_string())).filter(|s| !s.ends_with('/')).collect();
            let kinds = 4 + tree.files.len() + tree.dirs.len() + stems.len();
            let k = pick_idx(*target, kinds);
            let t = if k >= 4 + tree.files.len() + tree.dirs.len() { stems[k - 4 - tree.files.len() - tree.dirs.len()].clone() } else if k < tree.files.len() { tree.files[k].url.clone() } else if k < tree.files.len() + tree.dirs.len() { tree.dirs[k - tree.files.len()].url.clone() }
                else { match k - tree.files.len() - tree.dirs.len() { 0 => format!("/new-{}.txt", target), 1 => "/../created-above.txt".to_string(), 2 => format!("{}/inside-{}.html", tree.dirs.first().map(|d| d.url.trim_end_matches('/').to_string()).unwrap_or_default(), target), _ => "/../linked-area/beside.txt".to_string() } };
            let b: Vec<u8> = match body % 4 { 0 => vec![], 1 => b"replacement content".to_vec(), 2 => vec![0u8; 300], _ => b"{\"delete\": true}".to_vec() };
            let mut v = format!("{} {} HTTP/1.1\r\nHost: localhost\r\nContent-Length: {}\r\nContent-Type: application/octet-stream\r\n\r\n", m, t, b.len()).into_bytes();
            v.extend_from_slice(&b); v
        }
        Op::Ranged { file, spec, big } => {
            let url = if *big && !tree.files.is_empty() {
                // the largest regular file of the tree
                tree.files.iter().filter(|f| f.kind != "link-to-file").max_by_key(|f| std::fs::metadata(tree.abs(&f.url)).map(|m| m.len()).unwrap_or(0)).map(|f| f.url.clone()).unwrap_or_else(|| file_url(*file))
            } else { file_url(*file) };
            let len = std::fs::metadata(tree.abs(&url)).map(|m| m.len()).unwrap_or(0);
            let range = match spec % 10 {
                0 => "bytes=0-0".to_string(), 1 => "bytes=0-9, 20-29".to_string(), 2 => format!("bytes=0-9, {}-{}", len + 5, len + 9), 3 => format!("bytes=5-1, 0-{}", len.saturating_sub(1)),
                4 => format!("bytes=0-{}, x-y", len / 2), 5 => "bytes=-5, 3-".to_string(), 6 => format!("bytes={}-", len), 7 => "items=0-1, 2-3".to_string(),
                8 => format!("bytes=0-0,1-1,2-2,{}-{}", len, len + 1), _ => "bytes=1-2, 18446744073709551615-18446744073709551616".to_string() };
            format!("{} {} HTTP/1.1\r\nHost: localhost\r\nRange: {}\r\n\r\n", if spec % 3 == 2 { "HEAD" } else { "GET" }, url, range).into_bytes()
        }
        Op::Upload { file, spell } => {
            let name = named(*file, *spell);
            let body = format!("--XB\r\nContent-Disposition: form-data; name=\"file\"; filename=\"{}\"\r\nContent-Type: text/plain\r\n\r\nOVERWRITTEN BY UPLOAD\r\n--XB\r\nContent-Disposition: form-data; name=\"path\"\r\n\r\n{}\r\n--XB--\r\n", name, name);
            format!("POST /form-multipart-enctype-post-method HTTP/1.1\r\nHost: localhost\r\nContent-Type: multipart/form-data; boundary=XB\r\nContent-Length: {}\r\n\r\n{}", body.len(), body).into_bytes()
        }
        Op::Initiate { file, spell } => format!("POST /file-upload/initiate?name={}&lastModified=1&size={} HTTP/1.1\r\nHost: localhost\r\n\r\nhello", named(*file, *spell), [5u64, 0, 1, 1 << 40][(*spell / 5) as usize % 4]).into_bytes(),
        Op::FormPath { file, spell } => { let body = format!("path={}&name={}&content=overwrite&delete=true", named(*file, *spell), named(*file, *spell)); format!("POST /form-url-encoded-enctype-post-method HTTP/1.1\r\nContent-Type: application/x-www-form-urlencoded\r\nContent-Length: {}\r\n\r\n{}", body.len(), body).into_bytes() }
    }
}

fn op_strategy() -> impl Strategy<Value = Op> {
    prop_oneof![
        6 => (0u8..9, any::<u16>(), 0u8..4).prop_map(|(method, target, body)| Op::Method { method, target, body }),
        1 => (any::<u16>(), 0u8..20).prop_map(|(file, spell)| Op::Upload { file, spell }),
        2 => (any::<u16>(), 0u8..20).prop_map(|(file, spell)| Op::Initiate { file, spell }),
        2 => (any::<u16>(), 0u8..30, any::<bool>()).prop_map(|(file, spec, big)| Op::Ranged { file, spec, big }),
        1 => (any::<u16>(), 0u8..20).prop_map(|(file, spell)| Op::FormPath { file, spell }),
        2 => crate::fw::greq::case_strategy().prop_map(|c| Op::Mutant(Bytes(c.render(10000)))),
    ]
}

pub fn eval(ctx: &Ctx, c: &Case, strace: bool) -> Verdict {
    let tree = match Tree::materialise(&c.tree, &crate::fw::scratch_base()) { Ok(t) => t, Err(e) => return Verdict::fail("tree-materialisation-failed", e.to_string()) };
    let before = manifest(&tree.base);
    let mut problems: Vec<(String, String)> = vec![];
    let mut strace_log = None;
    let mut after_while_serving = None;
    if c.net {
        let mut opts = ServerOpts::new(&tree.root, 4);
        if strace {
            let log = crate::fw::scratch_base().join(format!("rwsv-strace-{}-{}.log", std::process::id(), crate::fw::hash64(&format!("{:?}", c.ops))));
            opts.wrapper = vec!["strace".into(), "-f".into(), "-qq".into(), "-o".into(), log.to_string_lossy().to_string(), "-e".into(), "trace=%file".into()];
            strace_log = Some(log);
        }
        let mut srv = match Server::start(&opts) { Ok(s) => s, Err(e) => { ctx.inconclusive(&format!("server start: {}", e)); return Verdict::Discard; } };
        for op in &c.ops { let _ = srv.roundtrip(&render(&tree, op), Duration::from_secs(5)); if srv.exited().is_some() { break; } }
        after_while_serving = Some(manifest(&tree.base));
        if c.vanish && srv.exited().is_none() {
            // a third party removes the served directory while the server runs (a deploy that swaps directories): requests that arrive then must not
            // create anything either - not the directory, not its ancestors
            let _ = std::fs::remove_dir_all(&tree.root);
            let gone = manifest(&tree.base);
            for req in [&b"GET / HTTP/1.1\r\nHost: localhost\r\n\r\n"[..], &b"GET /index.html HTTP/1.1\r\n\r\n"[..], &b"HEAD /missing HTTP/1.1\r\n\r\n"[..], &b"PUT /new.txt HTTP/1.1\r\nContent-Length: 1\r\n\r\nx"[..]] { let _ = srv.roundtrip(req, Duration::from_secs(3)); }
            let then = manifest(&tree.base);
            if gone != then {
                let created: Vec<String> = then.keys().filter(|k| !gone.contains_key(*k)).take(3).cloned().collect();
                problems.push(("file-created".to_string(), format!("after the served directory had been removed by a third party, requests created {:?} (network route)", created)));
            }
        }
        drop(srv);
    } else {
        if std::env::set_current_dir(&tree.root).is_err() { return Verdict::fail("chdir-failed", String::new()); }
        for op in &c.ops { let _ = inproc::serve(&render(&tree, op), Transport::default(), 10000, AppKind::Real, Entry::Process); }
        let _ = std::env::set_current_dir("/");
    }
    let after = after_while_serving.unwrap_or_else(|| manifest(&tree.base));
    if before != after {
        let mut diffs = vec![];
        for (k, v) in &before { match after.get(k) { None => diffs.push(format!("deleted {}", k)), Some(a) if a != v => diffs.push(format!("changed {}: {} -> {}", k, v, a)), _ => {} } }
        for k in after.keys() { if !before.contains_key(k) { diffs.push(format!("created {}", k)); } }
        let kind = if diffs.iter().any(|d| d.starts_with("created")) { "file-created" } else if diffs.iter().any(|d| d.starts_with("deleted")) { "file-deleted" } else { "file-changed" };
        problems.push((kind.to_string(), format!("{} ({} route, {} operations)", diffs.iter().take(3).cloned().collect::<Vec<_>>().join("; "), if c.net { "network" } else { "in-process" }, c.ops.len())));
    }
    if let Some(log) = strace_log {
        let text = std::fs::read_to_string(&log).unwrap_or_default();
        let _ = std::fs::remove_file(&log);
        let base = tree.base.to_string_lossy().to_string();
        let root = tree.root.to_string_lossy().to_string();
        // with -f a call may be split into "<pid> name(args <unfinished ...>" and "<pid> <... name resumed>rest) = result": join the halves
        let mut pending: std::collections::HashMap<String, String> = Default::default();
        let mut joined: Vec<String> = vec![];
        for line in text.lines() {
            let pid = line.trim_start().split(' ').next().unwrap_or("").to_string();
            if let Some(i) = line.find(" <unfinished ...>") { pending.insert(pid, line[..i].to_string()); continue; }
            if let (Some(a), Some(b)) = (line.find("<... "), line.find(" resumed>")) { if a < b { if let Some(head) = pending.remove(&pid) { joined.push(format!("{}{}", head, &line[b + " resumed>".len()..])); } continue; } }
            joined.push(line.to_string());
        }
        for line in joined.iter().map(|l| l.as_str()) {
            if line.contains(" = -1 ") { continue; }
            // "<pid> name(args) = result": the call's name is matched exactly (readlink is not link)
            let rest = line.trim_start().trim_start_matches(|c: char| c.is_ascii_digit()).trim_start();
            let name = match rest.find('(') { Some(i) if rest[..i].chars().all(|c| c.is_ascii_alphanumeric() || c == '_') => &rest[..i], _ => continue };
            const MUTATING: [&str; 31] = ["unlink", "unlinkat", "rename", "renameat", "renameat2", "mkdir", "mkdirat", "rmdir", "symlink", "symlinkat", "link", "linkat", "chmod", "fchmod", "fchmodat", "chown", "fchown", "lchown", "fchownat",
                "truncate", "ftruncate", "creat", "mknod", "mknodat", "utime", "utimes", "utimensat", "futimesat", "setxattr", "lsetxattr", "removexattr"];
            let mutating_call = MUTATING.contains(&name);
            let write_open = (name == "open" || name == "openat" || name == "openat2") && (line.contains("O_WRONLY") || line.contains("O_RDWR") || line.contains("O_CREAT") || line.contains("O_TRUNC") || line.contains("O_APPEND"));
            if !(mutating_call || write_open) { continue; }
            // paths under the scratch base, absolute or relative to the served root (the server's cwd)
            let touches = line.contains(&base) || (line.contains("\"") && !line.contains("\"/") && !root.is_empty());
            if touches && !line.contains("/dev/null") { problems.push(("mutating-system-call".to_string(), format!("strace: {}", line.chars().take(200).collect::<String>()))); break; }
        }
    }
    let state_changing = c.ops.iter().any(|o| matches!(o, Op::Method { method, target, .. } if (*method as usize % METHODS.len()) < 4 && pick_idx(*target, 4 + tree.files.len() + tree.dirs.len() + tree.files.iter().filter(|f| f.url.ends_with(".html") && !f.url.ends_with("/.html")).count()) < tree.files.len()) || matches!(o, Op::Upload { .. } | Op::FormPath { .. }));
    let mut classes = vec![if c.net { "network-route" } else { "in-process-route" }];
    if c.ops.iter().any(|o| matches!(o, Op::Upload { .. })) { classes.push("multipart-upload-naming-a-tree-file"); }
    if state_changing { classes.push("state-changing-method-on-existing-file"); }
    if c.vanish { classes.push("served-directory-removed-by-a-third-party-while-serving"); }
    ctx.judge(problems, state_changing, classes)
}

pub fn run(ctx: &Ctx) {
    crate::fw::inproc::init_env();
    *ctx.max_shrink_iters.borrow_mut() = 60;
    let thorough = ctx.tier == Tier::Thorough;
    let strat = (tree_strategy(false), any::<bool>(), prop_oneof![2 => proptest::collection::vec(op_strategy(), 1..60), 1 => proptest::collection::vec(op_strategy(), 60..200)]).prop_map(|(tree, net, ops)| Case { vanish: net && ops.len() % 5 == 0, tree, net, ops });
    ctx.prop("sequences", ctx.share(ctx.scale(640, 8000)), strat, |c| eval(ctx, c, false));
    if thorough {
        let strat = (tree_strategy(false), proptest::collection::vec(op_strategy(), 1..80)).prop_map(|(tree, ops)| Case { vanish: false, tree, net: true, ops });
        ctx.prop("sequences-under-strace", ctx.share(400), strat, |c| eval(ctx, c, true));
    }
}

pub fn replay(ctx: &Ctx, section: &str, case: &Value) -> Verdict {
    crate::fw::inproc::init_env();
    match serde_json::from_value::<Case>(case.clone()) { Ok(c) => eval(ctx, &c, section == "sequences-under-strace"), Err(e) => Verdict::fail("replay-unreadable", e.to_string()) }
}
