//! C09 — HEAD and OPTIONS behave consistently with GET.
use crate::fw::inproc::{self, AppKind, Entry};
use crate::fw::mock::Transport;
use crate::fw::tree::{lookup, tree_strategy, Selected, Tree, TreeSpec};
use crate::fw::{hash64, mhttp, Ctx, RunSpec, Tier, Verdict};
use serde::{Deserialize, Serialize};
use serde_json::{json, Value};

pub fn spec(tier: Tier) -> RunSpec {
    super::base_spec(
        8,
        "generated document trees (G-TREE) x every path that M-LOOKUP selects (files, symlinks, directory indexes with and without slash, .html fallbacks, built-in index page and assets) x {GET, HEAD, OPTIONS} \
x {no Origin, Origin, Origin + Access-Control-Request-Method/-Headers} x {no Range, a valid Range} x both entry points (legacy restricted to its domain: plain files). \
Oracle: HEAD = GET's status and header multiset modulo the timestamp value (hence the same Content-Length, Content-Type, Content-Range), empty body; OPTIONS = 2xx, empty body and, when the request carries Origin, \
the preflight grants M-CORS predicts for the active (default allow-all) configuration: Allow-Origin = Origin, Allow-Credentials true, Allow-Methods / Allow-Headers echo the requested ones. \
A fifth header variant per path carries two headers drawn (by the path) from G-REQ's vocabulary of request, client-hint, conditional and response header names. A quarter of the trees are served by the real release binary over loopback (class served-by-the-real-binary). Non-trivial = path served through the static-file controller (not '/'); distinct by (tree, path, method, header variant, entry); counted per request triple.",
        &["the form demo endpoints are not pages and stay outside this check", "CORS grants are judged for the default configuration here; C11 varies the configuration; a third of the in-process trees run under a restricted configuration (switch off, listed origins / methods / headers) where HEAD = GET is still demanded header for header and OPTIONS from a listed origin must carry the configured origin / methods / headers / max-age grants"],
        if tier == Tier::Quick { 900 } else { 14400 },
    )
}

#[derive(Clone, Debug, Serialize, Deserialize)]
pub struct Case { pub tree: TreeSpec,
    /// production-entry requests of this tree go to the real binary
    #[serde(default)] pub binary: bool,
    /// a restricted CORS configuration (switch off, listed origins / methods) instead of the default one: HEAD must still mirror GET, header for header
    #[serde(default)] pub cors: Option<CorsCfg> }

#[derive(Clone, Debug, Serialize, Deserialize)]
pub struct CorsCfg { pub origins: Vec<String>, pub methods: Vec<String>, pub headers: Vec<String>,
    /// None: the setting is left empty (neither true nor false)
    pub credentials: Option<bool> }

fn set_cors_env(c: &Option<CorsCfg>) {
    crate::fw::inproc::init_env();
    if let Some(k) = c {
        std::env::set_var("RWS_CONFIG_CORS_ALLOW_ALL", "false");
        std::env::set_var("RWS_CONFIG_CORS_ALLOW_ORIGINS", k.origins.join(","));
        std::env::set_var("RWS_CONFIG_CORS_ALLOW_METHODS", k.methods.join(","));
        std::env::set_var("RWS_CONFIG_CORS_ALLOW_HEADERS", k.headers.join(","));
        std::env::set_var("RWS_CONFIG_CORS_EXPOSE_HEADERS", "content-type");
        std::env::set_var("RWS_CONFIG_CORS_ALLOW_CREDENTIALS", k.credentials.map(|b| b.to_string()).unwrap_or_default());
        std::env::set_var("RWS_CONFIG_CORS_MAX_AGE", "600");
    }
}

fn send(method: &str, path: &str, extra: &str, entry: Entry) -> (Vec<u8>, Result<Result<(), String>, (String, String)>) {
    let req = format!("{} {} HTTP/1.1\r\nHost: localhost\r\n{}\r\n", method, path, extra);
    let o = inproc::serve_routed(req.as_bytes(), true, entry); // through the binary whenever check_tree has started one
    (o.out, o.result)
}

fn multiset(r: &mhttp::Resp) -> Vec<(String, String)> {
    let mut v: Vec<(String, String)> = r.headers.iter().map(|(n, v)| (n.clone(), if n == "Date-Unix-Epoch-Nanos" { "T".into() } else { v.clone() })).collect();
    v.sort(); v
}

pub fn check_tree(ctx: &Ctx, c: &Case, count: bool) -> Verdict {
    let tree = match Tree::materialise(&c.tree, &crate::fw::scratch_base()) { Ok(t) => t, Err(e) => return Verdict::fail("tree-materialisation-failed", e.to_string()) };
    if std::env::set_current_dir(&tree.root).is_err() { return Verdict::fail("chdir-failed", String::new()); }
    // the restricted configuration is read from the environment by the in-process routes; trees served by the real binary keep the default one
    let restricted = c.cors.is_some() && !c.binary;
    set_cors_env(if restricted { &c.cors } else { &None });
    if c.binary { if let Err(e) = inproc::binary_start(&tree.root) { ctx.inconclusive(&format!("real binary did not start: {}", e)); } }
    let mut paths: Vec<String> = vec!["/".into(), "/style.css".into(), "/script.js".into(), "/favicon.svg".into()];
    for f in &tree.files { paths.push(f.url.clone()); if let Some(s) = f.url.strip_suffix(".html") { if !s.ends_with('/') { paths.push(s.to_string()); } } }
    for d in &tree.dirs { if d.url != "/" && d.has_index { paths.push(d.url.clone()); paths.push(format!("{}/", d.url)); } }
    paths.retain(|p| !p.contains('#') && !p.contains('?'));
    paths.sort(); paths.dedup();
    // Origins whose host is the request's own Host (another port, another scheme, other letter case) are cross-origin requests like any other
    let fixed_variants: [(&str, &str); 10] = [
        ("preflight-for-header-names-with-digits-and-punctuation", "Origin: https://app.example\r\nAccess-Control-Request-Method: DELETE\r\nAccess-Control-Request-Headers: x-amz-content-sha256, x_request_id, x-api.version, X-B3-TraceId, if-match\r\n"),
        ("origin-on-the-host-of-the-request", "Origin: http://localhost:3000\r\n"),
        ("preflight-from-the-host-of-the-request", "Origin: https://LOCALHOST\r\nAccess-Control-Request-Method: PUT\r\nAccess-Control-Request-Headers: X-Custom, Content-Type\r\n"),
        ("multirange", "Range: bytes=0-0, 2-3\r\n"),
        // what a browser sends for fetch(url, {method: 'PUT'}) without custom headers, and for a GET with a custom header
        ("preflight-method-only", "Origin: https://app.example\r\nAccess-Control-Request-Method: PUT\r\n"),
        ("preflight-headers-only", "Origin: https://app.example\r\nAccess-Control-Request-Headers: X-Custom, Content-Type\r\n"),
        ("plain", ""),
        ("origin", "Origin: https://app.example\r\n"),
        ("preflight", "Origin: https://app.example\r\nAccess-Control-Request-Method: PUT\r\nAccess-Control-Request-Headers: X-Custom, Content-Type\r\n"),
        ("range", "Range: bytes=0-0\r\n"),
    ];
    let mut problems: Vec<(String, String)> = vec![];
    let mut evals = 0u64;
    let mut classes: std::collections::BTreeMap<&'static str, u64> = Default::default();
    'outer: for path in &paths {
        let sel = lookup(&tree.root, path);
        let selected_len = match &sel { Selected::File { path: fp, .. } => std::fs::metadata(fp).map(|m| m.len()).unwrap_or(0), Selected::BuiltIn(_) => 1, Selected::Nothing => continue };
        for entry in [Entry::Process, Entry::Legacy] {
            if entry == Entry::Legacy && !matches!(&sel, Selected::File { rule: "file", .. }) { continue; }
            // a fifth variant per path: two headers of G-REQ's vocabulary (conditional, negotiation, client-hint, proxy headers ...), chosen by the path
            let hv = { let v = crate::fw::greq::HEADER_VOCABULARY; let h = hash64(&(path.clone(), c.tree.salt)); format!("{}: 1\r\n{}: Wed, 21 Oct 2015 07:28:00 GMT\r\n", v[(h % v.len() as u64) as usize], v[((h >> 20) % v.len() as u64) as usize]) };
            let variants: Vec<(&str, &str)> = fixed_variants.iter().cloned().chain(std::iter::once(("vocabulary", hv.as_str()))).collect();
            for (vname, extra) in variants.iter() {
                if *vname == "range" && selected_len == 0 { continue; }
                if *vname == "multirange" && selected_len < 4 { continue; }
                let (g_out, g_res) = send("GET", path, extra, entry);
                let (h_out, h_res) = send("HEAD", path, extra, entry);
                let (o_out, o_res) = send("OPTIONS", path, extra, entry);
                evals += 3;
                if c.binary && entry == Entry::Process { *classes.entry("served-by-the-real-binary").or_insert(0) += 3; }
                let tag = format!("{} [{}] entry {:?}", path, vname, entry);
                for (m, r) in [("GET", &g_res), ("HEAD", &h_res), ("OPTIONS", &o_res)] {
                    if let Err((msg, loc)) = r { problems.push((format!("panic:{}:{}", super::common::panic_module(loc), msg), format!("{} {} panicked at {}", m, tag, loc))); break 'outer; }
                }
                let (g, h, o) = match (mhttp::parse(&g_out), mhttp::parse(&h_out), mhttp::parse(&o_out)) { (Ok(g), Ok(h), Ok(o)) => (g, h, o), _ => { problems.push(("unparseable-response".into(), tag)); break 'outer; } };
                if g.status != 200 && g.status != 206 { *classes.entry("get-not-served-(C02's business)").or_insert(0) += 1; continue; }
                let legacy = entry == Entry::Legacy;
                // HEAD
                if h.status != g.status { problems.push((format!("head-status-{}-where-get-{}{}", h.status, g.status, if legacy { ":legacy" } else { "" }), format!("HEAD {} -> {}, GET -> {}", tag, h.status, g.status))); break 'outer; }
                if !h.body.is_empty() { problems.push(("head-response-has-body".into(), format!("HEAD {} carries {} body bytes", tag, h.body.len()))); break 'outer; }
                if multiset(&h) != multiset(&g) {
                    let (mh, mg) = (multiset(&h), multiset(&g));
                    let diff: Vec<String> = mg.iter().filter(|x| !mh.contains(x)).map(|x| format!("GET-only {}: {}", x.0, x.1)).chain(mh.iter().filter(|x| !mg.contains(x)).map(|x| format!("HEAD-only {}: {}", x.0, x.1))).take(4).collect();
                    problems.push(("head-headers-differ-from-get".into(), format!("{}: {}", tag, diff.join("; ")))); break 'outer;
                }
                // OPTIONS
                if o.status / 100 != 2 { problems.push((format!("options-status-{}{}", o.status, if legacy { ":legacy" } else { "" }), format!("OPTIONS {} -> {} where GET -> {}", tag, o.status, g.status))); break 'outer; }
                if !o.body.is_empty() { problems.push(("options-response-has-body".into(), format!("OPTIONS {} carries {} body bytes", tag, o.body.len()))); break 'outer; }
                let sent_origin = extra.lines().find_map(|l| l.strip_prefix("Origin: ")).unwrap_or("");
                if restricted { *classes.entry("restricted-cors-configuration").or_insert(0) += 1; }
                // the grants themselves are judged for the default configuration only (C11 varies the configuration and judges them against M-CORS)
                if restricted {
                    // a listed origin must get the configured preflight grants (M-CORS as in C11: the lists as configured, joined by commas)
                    let k = c.cors.as_ref().unwrap();
                    if (*vname == "origin" || vname.starts_with("preflight")) && sent_origin == "https://app.example" && k.origins.iter().any(|o| o == "https://app.example") {
                        let want: [(&str, String); 4] = [("Access-Control-Allow-Origin", "https://app.example".to_string()), ("Access-Control-Allow-Methods", k.methods.join(",")), ("Access-Control-Allow-Headers", k.headers.join(",")), ("Access-Control-Max-Age", "600".to_string())];
                        for (name, value) in want.iter() {
                            if o.get(name).map(|v| v.to_lowercase()) != Some(value.to_lowercase()) { problems.push(("options-without-configured-preflight-grant".into(), format!("OPTIONS {} under {:?}: {} is {:?} where {:?} is configured", tag, k, name, o.get(name), value))); break 'outer; }
                        }
                    }
                    continue;
                }
                if vname.starts_with("origin") || vname.starts_with("preflight") {
                    if o.get("Access-Control-Allow-Origin") != Some(sent_origin) { problems.push(("options-without-allow-origin-grant".into(), format!("OPTIONS {}: Access-Control-Allow-Origin {:?}", tag, o.get("Access-Control-Allow-Origin")))); break 'outer; }
                    if o.get("Access-Control-Allow-Credentials") != Some("true") { problems.push(("options-without-credentials-grant".into(), format!("OPTIONS {}", tag))); break 'outer; }
                }
                // whatever method / header names the preflight asks for are granted as asked (the default configuration echoes them; header names are tokens:
                // letters, digits and ! # $ % & ' * + - . ^ _ ` | ~)
                let sent_acrm = extra.lines().find_map(|l| l.strip_prefix("Access-Control-Request-Method: "));
                let sent_acrh = extra.lines().find_map(|l| l.strip_prefix("Access-Control-Request-Headers: "));
                if let Some(m) = sent_acrm { if o.get("Access-Control-Allow-Methods") != Some(m) { problems.push(("preflight-methods-grant-wrong".into(), format!("OPTIONS {}: Access-Control-Allow-Methods {:?} where {:?} was requested", tag, o.get("Access-Control-Allow-Methods"), m))); break 'outer; } }
                if let Some(h) = sent_acrh { if o.get("Access-Control-Allow-Headers").map(|v| v.to_lowercase()) != Some(h.to_lowercase()) { problems.push(("preflight-headers-grant-wrong".into(), format!("OPTIONS {}: Access-Control-Allow-Headers {:?} where {:?} was requested", tag, o.get("Access-Control-Allow-Headers"), h))); break 'outer; } }
                let nt = path != "/";
                *classes.entry(match &sel { Selected::File { rule, .. } => match *rule { "dir-index" => "dir-index", "html-fallback" => "html-fallback", "root-index" => "root-index", "asset" => "asset-file", _ => "file" }, Selected::BuiltIn(_) => "built-in", _ => "?" }).or_insert(0) += 1;
                *classes.entry(match *vname { "plain" => "variant-plain", "origin" => "variant-origin", "preflight" => "variant-preflight", "multirange" => "variant-multirange", "preflight-method-only" => "variant-preflight-method-only", "preflight-headers-only" => "variant-preflight-headers-only", "vocabulary" => "variant-vocabulary-headers", "preflight-for-header-names-with-digits-and-punctuation" => "variant-preflight-token-names", "origin-on-the-host-of-the-request" | "preflight-from-the-host-of-the-request" => "variant-origin-on-the-request's-own-host", _ => "variant-range" }).or_insert(0) += 1;
                if legacy { *classes.entry("legacy-entry").or_insert(0) += 1; }
                if count && nt {
                    ctx.nontrivial.borrow_mut().insert(hash64(&(hash64(&format!("{:?}", c.tree)), path.clone(), *vname, legacy)));
                    ctx.sample(vname, || json!({"path": path, "variant": vname, "entry": format!("{:?}", entry), "get_status": g.status, "head_status": h.status, "options_status": o.status, "content_length": g.get("Content-Length"), "options_allow_origin": o.get("Access-Control-Allow-Origin")}));
                }
            }
        }
    }
    if count {
        let mut r = ctx.res.borrow_mut();
        r.evaluations += evals.saturating_sub(1);
        for (k, v) in classes { *r.classes.entry(k.to_string()).or_insert(0) += v; }
        *r.sections.entry("requests".into()).or_insert(0) += evals;
    }
    if restricted { crate::fw::inproc::init_env(); }
    inproc::binary_stop();
    for t in inproc::binary_trouble() { ctx.inconclusive(&format!("exchange with the real binary did not complete: {}", t)); }
    let _ = std::env::set_current_dir("/");
    ctx.judge(problems, false, vec![])
}

pub fn run(ctx: &Ctx) {
    crate::fw::inproc::init_env();
    *ctx.auto_sample.borrow_mut() = false;
    let strat = { use proptest::prelude::*; let sub = |pool: Vec<&'static str>| proptest::collection::vec(prop::sample::select(pool), 0..4).prop_map(|v| { let mut out: Vec<String> = vec![]; for s in v { if !out.contains(&s.to_string()) { out.push(s.to_string()); } } out });
        let cors = (prop_oneof![4 => Just(vec!["https://app.example".to_string()]), 2 => Just(vec!["https://other.example".to_string(), "https://app.example".to_string()]), 1 => Just(vec!["https://other.example".to_string()]), 1 => Just(vec![])],
            sub(vec!["GET", "POST", "PUT", "HEAD", "OPTIONS", "DELETE"]), sub(vec!["content-type", "x-custom", "authorization"]), proptest::option::weighted(0.7, any::<bool>())).prop_map(|(origins, methods, headers, credentials)| CorsCfg { origins, methods, headers, credentials });
        (tree_strategy(false), proptest::bool::weighted(0.25), proptest::option::weighted(0.35, cors)).prop_map(|(tree, binary, cors)| Case { tree, binary, cors }) };
    ctx.prop("trees", ctx.share(ctx.scale(48, 2000)), strat, |c| check_tree(ctx, c, !*ctx.shrinking.borrow()));
}

pub fn replay(ctx: &Ctx, _section: &str, case: &Value) -> Verdict {
    crate::fw::inproc::init_env();
    match serde_json::from_value::<Case>(case.clone()) { Ok(c) => check_tree(ctx, &c, false), Err(e) => Verdict::fail("replay-unreadable", e.to_string()) }
}
