//! C12 — effective settings: command line over config file over environment over defaults (real binary only).
use crate::fw::net::{self, free_port, Outcome, Server, ServerOpts};
use crate::fw::{mhttp, Ctx, RunSpec, Tier, Verdict};
use proptest::prelude::*;
use serde::{Deserialize, Serialize};
use serde_json::Value;
use std::time::Duration;

pub fn spec(tier: Tier) -> RunSpec {
    let mut s = super::base_spec(
        8,
        "section exhaustive: the 11 settings x the 8 subsets of {environment, rws.config.toml, command line}, each source supplying its own recognisable value (88 runs, complete; flagged exhaustive). \
section sampled: every setting draws its own subset of sources, a rendering of the config file (comments, blank lines, single/double quotes, single-line arrays with inner blanks, '_' or '-' in keys, key order, blanks around '=', LF/CRLF, and the layout whitespace TOML allows: indented key lines, an indented [cors] header, blanks inside its brackets and after it, trailing blanks, whitespace-only lines) \
and a flag spelling (short -p= / long --port=). Oracle M-CONF: effective value = first present of command line, file, environment, documented default; all 11 effective values are read back on every run from the running server: \
the 'Setting up http://ip:port' line and the address that accepts connections, 'Spawned N thread(s)' and the worker threads in /proc, CORS headers of probe requests (one probe per candidate origin; an OPTIONS probe shows methods / headers / expose / credentials / max-age), \
and the buffer size echoed by POST /file-upload/initiate (value - 4000). Non-trivial = at least two sources supply the same setting; distinct by case.",
        &["CORS sub-settings are only observable when the effective allow-all switch is false; runs where it is true assert nothing about them", "runs that use the default port 7878 are serialised by a lock file",
          "renderings stay inside the subset the sample file documents (no multi-line arrays, no '#' inside quoted values, no dotted keys); tab characters as blanks are a separate reported class"],
        if tier == Tier::Quick { 900 } else { 14400 },
    );
    s.case_limit_s = 300;
    s
}

pub const SETTINGS: [&str; 11] = ["ip", "port", "thread_count", "allow_all", "allow_origins", "allow_methods", "allow_headers", "allow_credentials", "expose_headers", "max_age", "request_allocation_size_in_bytes"];

fn env_name(s: &str) -> &'static str {
    match s { "ip" => "RWS_CONFIG_IP", "port" => "RWS_CONFIG_PORT", "thread_count" => "RWS_CONFIG_THREAD_COUNT", "allow_all" => "RWS_CONFIG_CORS_ALLOW_ALL", "allow_origins" => "RWS_CONFIG_CORS_ALLOW_ORIGINS",
        "allow_methods" => "RWS_CONFIG_CORS_ALLOW_METHODS", "allow_headers" => "RWS_CONFIG_CORS_ALLOW_HEADERS", "allow_credentials" => "RWS_CONFIG_CORS_ALLOW_CREDENTIALS", "expose_headers" => "RWS_CONFIG_CORS_EXPOSE_HEADERS",
        "max_age" => "RWS_CONFIG_CORS_MAX_AGE", _ => "RWS_CONFIG_REQUEST_ALLOCATION_SIZE_IN_BYTES" }
}
fn flags(s: &str) -> (&'static str, &'static str) {
    match s { "ip" => ("-i", "--ip"), "port" => ("-p", "--port"), "thread_count" => ("-t", "--thread-count"), "allow_all" => ("-a", "--cors-allow-all"), "allow_origins" => ("-o", "--cors-allow-origins"),
        "allow_methods" => ("-m", "--cors-allow-methods"), "allow_headers" => ("-h", "--cors-allow-headers"), "allow_credentials" => ("-c", "--cors-allow-credentials"), "expose_headers" => ("-e", "--cors-expose-headers"),
        "max_age" => ("-g", "--cors-max-age"), _ => ("-r", "--request-allocation-size-in-bytes") }
}
fn is_cors(s: &str) -> bool { !matches!(s, "ip" | "port" | "thread_count" | "request_allocation_size_in_bytes") }
fn is_list(s: &str) -> bool { matches!(s, "allow_origins" | "allow_methods" | "allow_headers" | "expose_headers") }

/// which sources supply each setting: bit 0 environment, bit 1 file, bit 2 command line; booleans drawn per source
#[derive(Clone, Debug, Serialize, Deserialize)]
pub struct Case {
    pub subsets: Vec<u8>,
    pub bools: Vec<u8>,
    pub short_flags: u16,
    pub render: Render,
}

#[derive(Clone, Debug, Serialize, Deserialize)]
pub struct Render { pub crlf: bool, pub quotes: u8, pub spaces: u8, pub comments: u8, pub hyphen_keys: u16, pub order: u64, pub tabs: bool,
    /// layout whitespace TOML allows: bits 0..10 indent key line i, 11 indent the table header, 12 blanks inside its brackets, 13 blanks after the header, 14 blanks after every key line, 15 whitespace-only lines
    #[serde(default)] pub layout: u16 }

/// the value source `src` (0 env, 1 file, 2 cli) supplies for a setting; ports are filled in per run
fn value_of(setting: &str, src: usize, ports: &[u16; 3], bools: u8) -> String {
    let b = |k: usize| if (bools >> k) & 1 == 1 { "true" } else { "false" };
    // a list may be given explicitly empty by a source (-o=, allow_origins = [], an empty variable): that is a value and takes part in the precedence
    // like any other (bits 3..5 of the setting's selector byte, set in a quarter of the sampled cases)
    if is_list(setting) && (bools >> (src + 3)) & 1 == 1 { return String::new(); }
    match setting {
        "ip" => ["127.0.0.2", "127.0.0.3", "127.0.0.4"][src].to_string(),
        "port" => ports[src].to_string(),
        // numeric settings draw their three values from one of four pools (bits 6..7 of the selector byte): small, smallest legal, powers of two, large
        "thread_count" => [["3", "5", "7"], ["1", "2", "4"], ["2", "1", "16"], ["64", "8", "1"]][(bools >> 6) as usize & 3][src].to_string(),
        "allow_all" | "allow_credentials" => b(src).to_string(),
        // values carry the characters that mean something to one of the three readers ('_' and '-' of key normalisation, upper case, '.', ':', '/', '+', '~', '*')
        "allow_origins" => ["https://env_host.example,https://env2.example", "https://file_host.example:8443,https://File2.example", "https://cli_host.example"][src].to_string(),
        "allow_methods" => ["GET", "POST,PUT", "DELETE,PATCH"][src].to_string(),
        "allow_headers" => ["x_env-h", "x_file-h,Content-Type", "x_cli-h~1"][src].to_string(),
        "expose_headers" => ["x-exp_env", "X-Exp_File,etag", "x-exp_cli+1"][src].to_string(),
        "max_age" => [["11", "22", "33"], ["0", "1", "2"], ["86400", "600", "31536000"], ["4294967295", "10", "0"]][(bools >> 6) as usize & 3][src].to_string(),
        _ => [["5001", "6002", "7003"], ["1000", "2000", "4096"], ["20000", "65536", "10001"], ["9999", "100000", "512"]][(bools >> 6) as usize & 3][src].to_string(),
    }
}
fn default_of(setting: &str) -> String {
    match setting { "ip" => "127.0.0.1", "port" => "7878", "thread_count" => "200", "allow_all" => "true", "max_age" => "86400", "request_allocation_size_in_bytes" => "10000", _ => "" }.to_string()
}

fn render_file(c: &Case, ports: &[u16; 3]) -> Option<String> {
    let r = &c.render;
    let mut root_lines = vec![]; let mut cors_lines = vec![];
    let sp = |k: u8| if r.tabs { "\t".repeat((k % 2 + 1) as usize) } else { " ".repeat((k % 4) as usize) };
    for (i, s) in SETTINGS.iter().enumerate() {
        if (c.subsets[i] >> 1) & 1 == 0 { continue; }
        let v = value_of(s, 1, ports, c.bools[i]);
        let key_base = if *s == "request_allocation_size_in_bytes" { "request_allocation_size_in_bytes" } else { s };
        let key = if (r.hyphen_keys >> i) & 1 == 1 { key_base.replace('_', "-") } else { key_base.to_string() };
        let q = if (r.quotes >> (i % 8)) & 1 == 1 { "\"" } else { "'" };
        let rendered = if is_list(s) && v.is_empty() { if r.spaces % 2 == 0 { "[]".to_string() } else { "[ ]".to_string() } } else if is_list(s) { format!("[{}]", v.split(',').map(|x| format!("{}{}{}", q, x, q)).collect::<Vec<_>>().join(if r.spaces % 2 == 0 { ", " } else { "," })) }
            else if matches!(*s, "port" | "thread_count" | "request_allocation_size_in_bytes" | "allow_all" | "allow_credentials") && (r.quotes >> ((i + 3) % 8)) & 1 == 0 { v.clone() }
            else { format!("{}{}{}", q, v, q) };
        let comment = match (r.comments >> (i % 4)) & 3 { 1 => " # a trailing comment".to_string(), 2 => "#tight".to_string(), _ => String::new() };
        let blank = if r.tabs { "\t" } else { " " };
        let indent = if (r.layout >> i) & 1 == 1 { blank.repeat(1 + i % 3) } else { String::new() };
        let trail = if (r.layout >> 14) & 1 == 1 { blank.repeat(2) } else { String::new() };
        let line = format!("{}{}{}={}{}{}{}", indent, key, sp(r.spaces), sp(r.spaces / 4), rendered, comment, trail);
        if is_cors(s) { cors_lines.push(line) } else { root_lines.push(line) }
    }
    if root_lines.is_empty() && cors_lines.is_empty() { return None; }
    // key order: rotate by the order value
    if !root_lines.is_empty() { let k = (r.order as usize) % root_lines.len(); root_lines.rotate_left(k); }
    if !cors_lines.is_empty() { let k = ((r.order >> 8) as usize) % cors_lines.len(); cors_lines.rotate_left(k); }
    let mut lines: Vec<String> = vec![];
    if r.comments & 1 == 1 { lines.push("# generated configuration".into()); lines.push(String::new()); }
    lines.extend(root_lines);
    if r.comments & 2 == 2 { lines.push(String::new()); lines.push("   # cross origin".into()); }
    if !cors_lines.is_empty() {
        let blank = if r.tabs { "\t" } else { " " };
        let header = format!("{}{}{}", if (r.layout >> 11) & 1 == 1 { blank.repeat(2) } else { String::new() }, if (r.layout >> 12) & 1 == 1 { format!("[{}cors{}]", blank, blank) } else { "[cors]".to_string() }, if (r.layout >> 13) & 1 == 1 { blank.repeat(3) } else { String::new() });
        lines.push(if r.comments & 4 == 4 { format!("{} #  CROSS ORIGIN RESOURCE SHARING", header) } else { header });
        if (r.layout >> 15) & 1 == 1 { lines.push(blank.repeat(4)); }
        lines.extend(cors_lines);
    }
    let nl = if r.crlf { "\r\n" } else { "\n" };
    Some(lines.join(nl) + nl)
}

pub fn eval(ctx: &Ctx, c: &Case) -> Verdict {
    let scratch = crate::fw::scratch_base().join(format!("rwsv-c12-{}-{}", std::process::id(), crate::fw::hash64(&format!("{:?}", c))));
    let _ = std::fs::remove_dir_all(&scratch);
    if std::fs::create_dir_all(&scratch).is_err() { return Verdict::Discard; }
    // the ports are fixed by the case's sources, not by Server::start: a port lost to a parallel process is answered by drawing new ones
    let mut verdict = Verdict::Discard;
    for _attempt in 0..6 {
        PORT_IN_USE.with(|p| p.set(false));
        verdict = eval_in(ctx, c, &scratch);
        if !PORT_IN_USE.with(|p| p.get()) { break; }
        let _ = std::fs::remove_file(scratch.join("rws.config.toml"));
    }
    if PORT_IN_USE.with(|p| p.get()) { ctx.inconclusive("six attempts in a row lost their port to another process"); }
    let _ = std::fs::remove_dir_all(&scratch);
    verdict
}

thread_local! { static PORT_IN_USE: std::cell::Cell<bool> = std::cell::Cell::new(false); }

fn eval_in(ctx: &Ctx, c: &Case, docroot: &std::path::Path) -> Verdict {
    // expected effective values
    let mut expected: Vec<String> = vec![];
    // ports: chosen on the loopback addresses they will be bound on is not knowable before the ip is decided; free ports are address independent enough on loopback
    let ports = [free_port("127.0.0.1"), free_port("127.0.0.1"), free_port("127.0.0.1")];
    if ports.iter().any(|p| *p == 0) || ports[0] == ports[1] || ports[1] == ports[2] || ports[0] == ports[2] { return Verdict::Discard; }
    for (i, s) in SETTINGS.iter().enumerate() {
        let sub = c.subsets[i];
        let v = if sub & 4 != 0 { value_of(s, 2, &ports, c.bools[i]) } else if sub & 2 != 0 { value_of(s, 1, &ports, c.bools[i]) } else if sub & 1 != 0 { value_of(s, 0, &ports, c.bools[i]) } else { default_of(s) };
        expected.push(v);
    }
    let exp = |name: &str| expected[SETTINGS.iter().position(|s| *s == name).unwrap()].clone();
    let mut opts = ServerOpts::new(docroot, 1);
    opts.pass_port_and_threads = false;
    for (i, s) in SETTINGS.iter().enumerate() {
        if c.subsets[i] & 1 != 0 { opts.env.push((env_name(s).to_string(), value_of(s, 0, &ports, c.bools[i]))); }
        if c.subsets[i] & 4 != 0 { let (short, long) = flags(s); let f = if (c.short_flags >> i) & 1 == 1 { short } else { long }; opts.args.push(format!("{}={}", f, value_of(s, 2, &ports, c.bools[i]))); }
    }
    if let Some(text) = render_file(c, &ports) { if std::fs::write(docroot.join("rws.config.toml"), text).is_err() { return Verdict::Discard; } }
    let port: u16 = exp("port").parse().unwrap_or(0);
    let ip = exp("ip");
    opts.ip = ip.clone();
    opts.port = Some(port);
    opts.threads = exp("thread_count").parse().unwrap_or(1);
    // the default port is shared by every parallel instance: serialise
    let _lock = if port == 7878 { lock_default_port() } else { None };
    let mut problems: Vec<(String, String)> = vec![];
    let ctxt = format!("sources per setting (1 env, 2 file, 4 cli): {:?}; args {:?}; file {:?}", SETTINGS.iter().zip(c.subsets.iter()).filter(|(_, s)| **s != 0).collect::<Vec<_>>(), opts.args, render_file(c, &ports));
    let mut srv = match Server::start(&opts) {
        Ok(s) => s,
        Err(e) => {
            // the server did not come up where M-CONF expects it: find out where it went
            if e.contains("Address already in use") { PORT_IN_USE.with(|p| p.set(true)); return Verdict::Discard; }
            let log = e.clone();
            let sig = if log.contains("Setting up http://") { "server-listens-elsewhere" } else { "server-did-not-start" };
            return ctx.judge(vec![(format!("{}:expected-{}:{}", sig, "ip-port", if port == 7878 { "default" } else { "set" }), format!("expected http://{}:{}; {}; {}", ip, port, crate::fw::util::lossy(log.as_bytes(), 300), ctxt))], true, vec![]);
        }
    };
    let log = srv.log_text();
    let setting_up = log.lines().find(|l| l.starts_with("Setting up http://")).unwrap_or("").to_string();
    if setting_up != format!("Setting up http://{}:{}...", ip, port) { problems.push((if !setting_up.contains(&format!("{}:", ip)) { "effective-ip-differs".to_string() } else { "effective-port-differs".to_string() }, format!("{:?} where http://{}:{} is expected; {}", setting_up, ip, port, ctxt))); }
    let spawned = log.lines().find_map(|l| l.strip_prefix("Spawned ").and_then(|r| r.split_whitespace().next()).map(|s| s.to_string())).unwrap_or_default();
    if spawned != exp("thread_count") { problems.push(("effective-thread-count-differs".to_string(), format!("Spawned {} thread(s) where {} is expected; {}", spawned, exp("thread_count"), ctxt))); }
    else { let missing = srv.missing_workers(); if !missing.is_empty() { problems.push(("worker-threads-missing".to_string(), format!("{:?}", missing))); } }
    let limit = Duration::from_secs(5);
    // buffer size
    let ex = srv.roundtrip(b"POST /file-upload/initiate?name=a&lastModified=1&size=1 HTTP/1.1\r\nHost: localhost\r\n\r\n", limit);
    let want_buf: i64 = exp("request_allocation_size_in_bytes").parse::<i64>().unwrap_or(0);
    let want_echo = if want_buf > 4000 { want_buf - 4000 } else { want_buf };
    let body = mhttp::parse(&ex.bytes).map(|r| String::from_utf8_lossy(&r.body).to_string()).unwrap_or_default();
    let echoed = body.lines().find_map(|l| l.strip_prefix("request_allocation_size_in_bytes is ").map(|s| s.trim().to_string())).unwrap_or_default();
    if echoed != want_echo.to_string() { problems.push(("effective-buffer-size-differs".to_string(), format!("echo {:?} where {} is expected (buffer {}); {}", echoed, want_echo, want_buf, ctxt))); }
    // CORS
    let allow_all = exp("allow_all") == "true";
    let probe = |origin: &str, method: &str| -> Option<mhttp::Resp> { let ex = srv.roundtrip(format!("{} / HTTP/1.1\r\nHost: localhost\r\nOrigin: {}\r\n\r\n", method, origin).as_bytes(), limit); mhttp::parse(&ex.bytes).ok() };
    match probe("https://unlisted.example", "GET") {
        None => problems.push(("probe-not-answered".to_string(), ctxt.clone())),
        Some(r) => { let echoed = r.get("Access-Control-Allow-Origin") == Some("https://unlisted.example"); if echoed != allow_all { problems.push(("effective-allow-all-differs".to_string(), format!("unlisted origin granted: {}, expected switch {}; {}", echoed, allow_all, ctxt))); } }
    }
    let mut classes = vec![];
    if !allow_all {
        classes.push("cors-observable");
        let want_origins: Vec<String> = exp("allow_origins").split(',').filter(|s| !s.is_empty()).map(|s| s.to_string()).collect();
        let candidates = ["https://env_host.example", "https://env2.example", "https://file_host.example:8443", "https://File2.example", "https://cli_host.example",
            // look-alikes that must never be granted: '_' read as '-', other letter case, without the port
            "https://file-host.example:8443", "https://env-host.example", "https://cli-host.example", "https://file2.example", "https://file_host.example"];
        let mut granted = vec![];
        for cand in candidates { if let Some(r) = probe(cand, "GET") { if r.get("Access-Control-Allow-Origin") == Some(cand) { granted.push(cand.to_string()); } } }
        let mut w = want_origins.clone(); w.sort(); granted.sort();
        if granted != w { problems.push(("effective-allow-origins-differ".to_string(), format!("granted {:?}, expected {:?}; {}", granted, w, ctxt))); }
        else if let Some(first) = want_origins.first() {
            if let Some(r) = probe(first, "OPTIONS") {
                let chk = |h: &str, setting: &str, lower: bool, problems: &mut Vec<(String, String)>| { let got = r.get(h).unwrap_or("<absent>").to_string(); let want = if lower { exp(setting).to_lowercase() } else { exp(setting) }; if got != want { problems.push((format!("effective-{}-differs", setting.replace('_', "-")), format!("{}: {:?} where {:?} is expected; {}", h, got, want, ctxt))); } };
                chk("Access-Control-Allow-Methods", "allow_methods", false, &mut problems);
                chk("Access-Control-Allow-Headers", "allow_headers", true, &mut problems);
                chk("Access-Control-Expose-Headers", "expose_headers", true, &mut problems);
                chk("Access-Control-Max-Age", "max_age", false, &mut problems);
                let cred = r.get("Access-Control-Allow-Credentials").is_some();
                if cred != (exp("allow_credentials") == "true") { problems.push(("effective-allow-credentials-differs".to_string(), format!("credentials header present: {}, expected {}; {}", cred, exp("allow_credentials"), ctxt))); }
            }
        }
    } else { classes.push("cors-unobservable-(allow-all-on)"); }
    if let Some(e) = srv.exited() { problems.push(("server-process-gone".to_string(), e)); }
    let multi = c.subsets.iter().any(|s| s.count_ones() >= 2);
    if c.render.tabs { classes.push("config-with-tab-blanks"); }
    if SETTINGS.iter().enumerate().any(|(i, s)| is_list(s) && (0..3).any(|src| (c.subsets[i] >> src) & 1 == 1 && value_of(s, src, &[1, 2, 3], c.bools[i]).is_empty())) { classes.push("a-source-gives-an-empty-list"); }
    if c.render.layout & 0x7ff != 0 { classes.push("config-with-indented-keys"); }
    if c.render.layout & 0x3800 != 0 { classes.push("config-table-header-with-layout-blanks"); }
    if c.subsets.iter().any(|s| s & 2 != 0) { classes.push("with-config-file"); }
    if c.subsets.iter().any(|s| s & 4 != 0) { classes.push("with-command-line"); }
    if c.subsets.iter().any(|s| s & 1 != 0) { classes.push("with-environment"); }
    if port == 7878 { classes.push("default-port"); }
    ctx.judge(problems, multi, classes)
}

fn lock_default_port() -> Option<std::fs::File> {
    use std::os::unix::io::AsRawFd;
    let f = std::fs::OpenOptions::new().create(true).write(true).open(crate::fw::scratch_base().join("rwsv-port-7878.lock")).ok()?;
    unsafe { libc::flock(f.as_raw_fd(), libc::LOCK_EX); }
    Some(f)
}

fn plain_render() -> Render { Render { crlf: false, quotes: 0, spaces: 1, comments: 0, hyphen_keys: 0, order: 0, tabs: false, layout: 0 } }

pub fn run(ctx: &Ctx) {
    *ctx.max_shrink_iters.borrow_mut() = 40;
    // exhaustive: 11 settings x 8 subsets, partitioned over the workers
    ctx.set_section("exhaustive");
    let mut k = 0u32;
    for (i, s) in SETTINGS.iter().enumerate() {
        for subset in 0u8..8 {
            k += 1;
            if k % ctx.workers != ctx.worker { continue; }
            let mut subsets = vec![0u8; 11];
            subsets[i] = subset;
            // other settings stay at their defaults, except: a free port unless the port itself is under test, and the allow-all switch off for CORS sub-settings
            if *s != "port" { subsets[1] = 1; }
            if is_cors(s) && *s != "allow_all" { subsets[3] = 1; }
            let mut bools = vec![0u8; 11];
            bools[3] = if *s == "allow_all" { 0b010 } else { 0 }; // env false, file true, cli false: each precedence step changes the value
            bools[7] = 0b101; // credentials: env true, file false, cli true
            let c = Case { subsets, bools, short_flags: if subset & 4 != 0 && k % 2 == 0 { 1 << i } else { 0 }, render: plain_render() };
            ctx.inflight_ser(&c);
            let v = eval(ctx, &c);
            let cc = c.clone();
            let stop = ctx.count(&v, crate::fw::hash64(&format!("{:?}", c)), || serde_json::to_value(&cc).unwrap());
            if let Verdict::Pass { .. } = v { ctx.sample("exhaustive", || serde_json::json!({"setting": s, "sources_bitmask_env1_file2_cli4": subset})); }
            if stop { break; }
        }
    }
    ctx.clear_inflight();
    if ctx.worker == 0 { ctx.mark_exhaustive("exhaustive"); }
    let render = (any::<bool>(), any::<u8>(), any::<u8>(), any::<u8>(), any::<u16>(), any::<u64>(), proptest::bool::weighted(0.1), prop_oneof![2 => Just(0u16), 3 => any::<u16>()]).prop_map(|(crlf, quotes, spaces, comments, hyphen_keys, order, tabs, layout)| Render { crlf, quotes, spaces, comments, hyphen_keys, order, tabs, layout });
    let strat = (proptest::collection::vec(0u8..8, 11), proptest::collection::vec(prop_oneof![3 => 0u8..8, 1 => 0u8..64, 2 => any::<u8>()], 11), any::<u16>(), render).prop_map(|(mut subsets, bools, short_flags, render)| {
        // keep most runs away from the shared default port
        if subsets[1] == 0 && short_flags % 8 != 0 { subsets[1] = 1; }
        // keep the CORS sub-settings observable in most runs: the allow-all switch is mostly false wherever it is supplied
        let mut bools = bools;
        if short_flags % 10 < 7 { bools[3] = 0; if subsets[3] == 0 { subsets[3] = 1; } }
        Case { subsets, bools, short_flags, render }
    });
    ctx.prop("sampled", ctx.share(ctx.scale(1200, 40000)), strat, |c| eval(ctx, c));
}

pub fn replay(ctx: &Ctx, _section: &str, case: &Value) -> Verdict {
    match serde_json::from_value::<Case>(case.clone()) { Ok(c) => eval(ctx, &c), Err(e) => Verdict::fail("replay-unreadable", e.to_string()) }
}
