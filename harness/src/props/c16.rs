//! C16 — multipart/form-data bodies round-trip part for part.
use crate::body::multipart_form_data::{FormMultipartData, Part};
use crate::fw::inproc::{self, AppKind, Entry};
use crate::fw::mock::Transport;
use crate::fw::util::{contains_sub, Bytes};
use crate::fw::{catch, mhttp, Ctx, RunSpec, Tier, Verdict};
use crate::header::Header;
use proptest::prelude::*;
use serde::{Deserialize, Serialize};
use serde_json::Value;

pub fn spec(tier: Tier) -> RunSpec {
    super::base_spec(
        8,
        "sections: roundtrip (1..8 parts x 1..4 headers without leading/trailing blanks x bodies of arbitrary bytes with the end classes '', CR, LF, CRLF, 'x CRLF CRLF', '--' over-represented, quick <= 2 KiB, thorough up to 64 KiB \
x any RFC 2046 boundary of 1..70 characters - leading dashes, letters, digits, interior hyphens, punctuation - that does not occur in the data; oracle FormMultipartData::parse(generate(parts, b), b) == parts), \
browser (the same values serialised the way browsers do: Content-Type parameter without the two leading dashes through extract_boundary, '--b' delimiters, final '--b--' CRLF), \
decoys (roundtrip / browser cases whose bodies get 1..3 whole lines derived from the boundary that are not the delimiter and do not contain it: leading hyphens removed, one hyphen fewer, de-hyphenated, last character missing or replaced, other letter case, 'stripped--', first half, first non-hyphen character missing; as first / last / interior line or as the whole body), \
negatives (opening delimiter removed, closing delimiter removed by truncating after the headers / inside the body / after a complete part, a part without headers -> Err), \
echo (text parts through POST /form-multipart-enctype-post-method; each 'name is value' line compared after trimming trailing blanks). \
Non-trivial = a body of length <= 2 or ending in CR/LF, a boundary with an interior hyphen, >= 3 parts, or a negative; distinct by case.",
        &["header values have no leading/trailing blanks (the parser trims, which the statement does not forbid)", "the boundary is rejected by the generator only if the delimiter line occurs in the serialised parts"],
        if tier == Tier::Quick { 600 } else { 7200 },
    )
}

#[derive(Clone, Debug, Serialize, Deserialize, PartialEq)]
pub struct PartSpec { pub headers: Vec<(String, String)>, pub body: Bytes }

#[derive(Clone, Debug, Serialize, Deserialize)]
#[serde(tag = "kind")]
pub enum Case {
    #[serde(rename = "roundtrip")]
    RoundTrip { parts: Vec<PartSpec>, boundary: String },
    #[serde(rename = "browser")]
    Browser { parts: Vec<PartSpec>, boundary: String,
        /// what follows the colon of a part header line: 0 ": " (what browsers write), 1 nothing, 2 a tab, 3 two blanks (RFC 7230 optional whitespace)
        #[serde(default)] sep: u8 },
    #[serde(rename = "negative")]
    Negative { parts: Vec<PartSpec>, boundary: String, what: u8, cut: u16 },
    #[serde(rename = "echo")]
    Echo { fields: Vec<(String, String)>, boundary: String },
}

fn boundary_strategy() -> impl Strategy<Value = String> {
    let ch = prop_oneof![12 => "[A-Za-z0-9]", 2 => Just("-".to_string()), 1 => prop::sample::select(vec!["'", "(", ")", "+", "_", ",", ".", "/", ":", "=", "?"]).prop_map(|s| s.to_string())];
    prop_oneof![
        6 => (0usize..7, proptest::collection::vec(ch.clone(), 1..40)).prop_map(|(d, v)| format!("{}{}", "-".repeat(d), v.concat())),
        2 => ("[A-Za-z0-9]{1,8}", "[A-Za-z0-9]{1,8}").prop_map(|(a, b)| format!("{}-{}", a, b)),
        1 => "[A-Za-z0-9]{1,3}",
        1 => proptest::collection::vec(ch, 60..70).prop_map(|v| v.concat()),
        1 => prop::sample::select(vec!["-", "--", "---", "----WebKitFormBoundary7MA4YWxkTrZu0gW", "X-Y", "a"]).prop_map(|s| s.to_string()),
    ]
}

fn body_strategy(max: usize) -> impl Strategy<Value = Bytes> {
    let tail = prop::sample::select(vec!["", "\r", "\n", "\r\n", "x\r\n\r\n", "--", "\r\n--", "-", "\n\r"]);
    prop_oneof![
        2 => Just(Bytes(vec![])),
        2 => proptest::collection::vec(any::<u8>(), 1..=2).prop_map(Bytes),
        6 => (proptest::collection::vec(any::<u8>(), 0..64), tail.clone()).prop_map(|(mut v, t)| { v.extend_from_slice(t.as_bytes()); Bytes(v) }),
        2 => ("[ -~]{0,40}", tail).prop_map(|(s, t)| Bytes(format!("{}{}", s, t).into_bytes())),
        1 => proptest::collection::vec(any::<u8>(), 0..max).prop_map(Bytes),
        1 => proptest::collection::vec(prop_oneof![Just(b'\r'), Just(b'\n'), Just(b'-'), any::<u8>()], 0..200).prop_map(Bytes),
    ]
}

fn header_strategy() -> impl Strategy<Value = (String, String)> {
    prop_oneof![
        4 => ("[a-z]{1,8}", proptest::option::of("[A-Za-z0-9._]{1,12}")).prop_map(|(n, f)| ("Content-Disposition".to_string(), match f { Some(f) => format!("form-data; name=\"{}\"; filename=\"{}\"", n, f), None => format!("form-data; name=\"{}\"", n) })),
        2 => prop::sample::select(vec!["text/plain", "application/octet-stream", "image/png", "text/plain; charset=utf-8"]).prop_map(|v| ("Content-Type".to_string(), v.to_string())),
        2 => ("[A-Za-z][A-Za-z0-9-]{0,15}", "[!-~]([ -~]{0,30}[!-~])?"),
        1 => ("[A-Za-z][A-Za-z0-9-]{0,15}", Just(String::new())),
        // non-ASCII file names, long values (lengths around 64 .. 8192, single- and multi-byte characters)
        1 => ("[a-z]{1,8}", prop::sample::select(vec!["résumé.pdf", "日本語.txt", "a b.txt", "😀.png", "naïve (1).doc"])).prop_map(|(n, f)| ("Content-Disposition".to_string(), format!("form-data; name=\"{}\"; filename=\"{}\"", n, f))),
        1 => ("[A-Za-z][A-Za-z0-9-]{0,15}", crate::fw::greq::long_text().prop_map(|b| String::from_utf8_lossy(&b.0).trim().to_string()).prop_filter("empty", |s| !s.is_empty())),
    ]
}

fn parts_strategy(max_body: usize) -> impl Strategy<Value = Vec<PartSpec>> {
    proptest::collection::vec((proptest::collection::vec(header_strategy(), 1..=4), body_strategy(max_body)).prop_map(|(headers, body)| PartSpec { headers, body }), 1..=8)
}

/// Lines derived from the boundary that are *not* the delimiter and do not contain it: the delimiter match must be exact, so a body may
/// hold any of them (the boundary "does not occur in the data"). kind picks the derivation, place where the line goes in the body.
fn decoy_line(boundary: &str, kind: u8) -> Option<String> {
    let stripped = boundary.trim_start_matches('-');
    let lead = boundary.len() - stripped.len();
    let d = match kind % 9 {
        0 => stripped.to_string(),                                                    // every leading hyphen removed
        1 => if lead >= 1 { boundary[1..].to_string() } else { return None },          // one leading hyphen fewer
        2 => boundary.replace('-', ""),                                               // de-hyphenated altogether
        3 => boundary[..boundary.len() - 1].to_string(),                              // last character missing
        4 => { let mut c: Vec<char> = boundary.chars().collect(); let l = c.len() - 1; c[l] = if c[l] == 'x' { 'y' } else { 'x' }; c.into_iter().collect() } // last character replaced
        5 => if boundary.chars().any(|c| c.is_ascii_alphabetic()) { boundary.chars().map(|c| if c.is_ascii_lowercase() { c.to_ascii_uppercase() } else { c.to_ascii_lowercase() }).collect() } else { return None }, // other letter case
        6 => format!("{}--", stripped),                                               // looks like a closing delimiter of the stripped boundary
        7 => if boundary.len() >= 2 { boundary[..boundary.len() / 2].to_string() } else { return None }, // first half
        _ => if stripped.len() >= 2 { format!("{}{}", "-".repeat(lead), &stripped[1..]) } else { return None }, // first non-hyphen character missing
    };
    if d.is_empty() || d.contains(boundary) { None } else { Some(d) }
}

fn with_decoys(mut parts: Vec<PartSpec>, boundary: &str, decoys: &[(u16, u8, u8)]) -> Vec<PartSpec> {
    for (which, kind, place) in decoys {
        let Some(line) = decoy_line(boundary, *kind) else { continue };
        let i = crate::fw::util::pick_idx(*which, parts.len());
        let b = &mut parts[i].body.0;
        match place % 5 {
            0 => { let mut v = line.into_bytes(); v.extend_from_slice(b"\r\n"); v.extend_from_slice(b); *b = v; }                       // first line of the body
            1 => { b.extend_from_slice(b"\r\n"); b.extend_from_slice(line.as_bytes()); }                                              // last line, no line break after it
            2 => { b.extend_from_slice(b"\r\n"); b.extend_from_slice(line.as_bytes()); b.extend_from_slice(b"\r\n"); }                 // last line with line break
            3 => { *b = line.into_bytes(); }                                                                                          // the whole body
            _ => { b.extend_from_slice(b"\r\n"); b.extend_from_slice(line.as_bytes()); b.extend_from_slice(b"\r\ntail"); }             // interior line
        }
    }
    parts
}

fn decoy_strategy() -> impl Strategy<Value = Vec<(u16, u8, u8)>> { proptest::collection::vec((any::<u16>(), 0u8..9, 0u8..5), 1..4) }

fn to_parts(parts: &[PartSpec]) -> Vec<Part> {
    parts.iter().map(|p| Part { headers: p.headers.iter().map(|(n, v)| Header { name: n.clone(), value: v.clone() }).collect(), body: p.body.0.clone() }).collect()
}

/// serialised parts only (to decide whether the boundary occurs in the data)
fn data_of(parts: &[PartSpec]) -> Vec<u8> {
    let mut v = vec![];
    for p in parts { for (n, val) in &p.headers { v.extend_from_slice(format!("{}: {}\r\n", n, val).as_bytes()); } v.extend_from_slice(b"\r\n"); v.extend_from_slice(&p.body.0); v.extend_from_slice(b"\r\n"); }
    v
}

fn dehyphenated_collision(parts: &[PartSpec], boundary: &str) -> bool {
    let d = boundary.replace('-', "");
    if d.is_empty() { return true; }
    let data = data_of(parts);
    // the parser looks for the de-hyphenated boundary inside every line of a body, and at the end of de-hyphenated header lines
    contains_sub(&data, d.as_bytes()) || contains_sub(String::from_utf8_lossy(&data).replace('-', "").as_bytes(), d.as_bytes())
}

fn compare(parts: &[PartSpec], got: &[Part], boundary: &str, route: &str) -> Vec<(String, String)> {
    let mut problems = vec![];
    let tag = |s: &str| s.to_string();
    if got.len() != parts.len() { problems.push((tag("roundtrip-part-count"), format!("[{}] {} parts parsed, {} generated (boundary {:?})", route, got.len(), parts.len(), boundary))); return problems; }
    for (i, (g, w)) in got.iter().zip(parts.iter()).enumerate() {
        let gh: Vec<(String, String)> = g.headers.iter().map(|h| (h.name.clone(), h.value.clone())).collect();
        if gh != w.headers { problems.push((tag("roundtrip-part-headers"), format!("[{}] part {}: headers {:?} != {:?}", route, i, gh, w.headers))); return problems; }
        if g.body != w.body.0 {
            let sig = if w.body.0.is_empty() && g.body == b"\r\n" { "empty-part-body-parsed-as-crlf".to_string() } else { tag("roundtrip-part-body") };
            problems.push((sig, format!("[{}] part {}: body {} != {} (boundary {:?})", route, i, crate::fw::util::lossy(&g.body, 40), crate::fw::util::lossy(&w.body.0, 40), boundary)));
            return problems;
        }
    }
    problems
}

fn classes_of(parts: &[PartSpec], boundary: &str) -> (bool, Vec<&'static str>) {
    let mut c = vec![];
    let short = parts.iter().any(|p| p.body.0.len() <= 2);
    let ends = parts.iter().any(|p| p.body.0.ends_with(b"\r") || p.body.0.ends_with(b"\n"));
    let inner = boundary.trim_start_matches('-').contains('-');
    if short { c.push("body-length<=2"); }
    if ends { c.push("body-ends-in-line-break"); }
    if inner { c.push("boundary-with-interior-hyphen"); }
    if parts.len() >= 3 { c.push("three-or-more-parts"); }
    if parts.iter().any(|p| p.body.0.is_empty()) { c.push("empty-body"); }
    if (0u8..9).filter_map(|k| decoy_line(boundary, k)).any(|d| parts.iter().any(|p| p.body.0.split(|x| *x == b'\n').any(|l| l.strip_suffix(b"\r").unwrap_or(l) == d.as_bytes()))) { c.push("body-line-derived-from-boundary"); }
    (short || ends || inner || parts.len() >= 3, c)
}

pub fn eval(ctx: &Ctx, case: &Case) -> Verdict {
    match case {
        Case::RoundTrip { parts, boundary } => {
            if contains_sub(&data_of(parts), boundary.as_bytes()) { return Verdict::Discard; }
            let bytes = match catch(|| FormMultipartData::generate(to_parts(parts), boundary)) {
                Err((m, loc)) => return Verdict::fail(format!("panic:generate:{}", m), loc), Ok(Err(e)) => return Verdict::fail("generate-returns-err", e), Ok(Ok(b)) => b };
            let (nt, classes) = classes_of(parts, boundary);
            let problems = match catch(|| FormMultipartData::parse(&bytes, boundary.clone())) {
                Err((m, loc)) => vec![(format!("panic:parse:{}", m), format!("panic at {}", loc))],
                Ok(Err(e)) => vec![("parse-rejects-generated-body".to_string(), format!("Err({:?}) for boundary {:?}, {} parts", e, boundary, parts.len()))],
                Ok(Ok(got)) => compare(parts, &got, boundary, "library"),
            };
            ctx.judge(problems, nt, classes)
        }
        Case::Browser { parts, boundary, sep } => {
            let colon = [": ", ":", ":\t", ":  "][*sep as usize % 4];
            let delim = format!("--{}", boundary);
            // domain: the boundary (the Content-Type parameter) does not occur in the data
            if contains_sub(&data_of(parts), boundary.as_bytes()) || boundary.is_empty() { return Verdict::Discard; }
            let mut bytes = vec![];
            for p in parts { bytes.extend_from_slice(delim.as_bytes()); bytes.extend_from_slice(b"\r\n"); for (n, v) in &p.headers { bytes.extend_from_slice(format!("{}{}{}\r\n", n, colon, v).as_bytes()); } bytes.extend_from_slice(b"\r\n"); bytes.extend_from_slice(&p.body.0); bytes.extend_from_slice(b"\r\n"); }
            bytes.extend_from_slice(delim.as_bytes()); bytes.extend_from_slice(b"--\r\n");
            let ct = format!("multipart/form-data; boundary={}", boundary);
            let b = match catch(|| FormMultipartData::extract_boundary(&ct)) { Err((m, loc)) => return Verdict::fail(format!("panic:extract_boundary:{}", m), loc), Ok(Err(e)) => return Verdict::fail("extract-boundary-rejects-browser-content-type", e), Ok(Ok(b)) => b };
            let (nt, mut classes) = classes_of(parts, boundary);
            classes.push("browser-shape");
            if *sep % 4 != 0 { classes.push("header-colon-without-the-usual-blank"); }
            let problems = match catch(|| FormMultipartData::parse(&bytes, b.clone())) {
                Err((m, loc)) => vec![(format!("panic:parse:{}", m), format!("panic at {}", loc))],
                Ok(Err(e)) => vec![("parse-rejects-browser-body".to_string(), format!("Err({:?}) for boundary {:?}", e, boundary))],
                Ok(Ok(got)) => compare(parts, &got, boundary, "browser"),
            };
            ctx.judge(problems, nt, classes)
        }
        Case::Negative { parts, boundary, what, cut } => {
            if contains_sub(&data_of(parts), boundary.as_bytes()) { return Verdict::Discard; }
            let full = match FormMultipartData::generate(to_parts(parts), boundary) { Ok(b) => b, Err(_) => return Verdict::Discard };
            let (bytes, class, sig): (Vec<u8>, &'static str, &str) = match what % 9 {
                7 | 8 => { // a part without headers that comes after one (7) or after all (8) regular parts
                    let regular = to_parts(parts);
                    let k = if what % 9 == 7 { 1 } else { regular.len() };
                    let mut v: Vec<u8> = vec![];
                    let push_part = |v: &mut Vec<u8>, p: &Part| { v.extend_from_slice(boundary.as_bytes()); v.extend_from_slice(b"\r\n"); for h in &p.headers { v.extend_from_slice(format!("{}: {}\r\n", h.name, h.value).as_bytes()); } v.extend_from_slice(b"\r\n"); v.extend_from_slice(&p.body); v.extend_from_slice(b"\r\n"); };
                    for p in regular.iter().take(k) { push_part(&mut v, p); }
                    v.extend_from_slice(boundary.as_bytes()); v.extend_from_slice(b"\r\n\r\nbody of a part without headers\r\n");
                    for p in regular.iter().skip(k) { push_part(&mut v, p); }
                    v.extend_from_slice(boundary.as_bytes());
                    (v, "part-without-headers-after-regular-parts", "part-without-headers-accepted") }
                5 | 6 => { // every strict prefix lacks the closing delimiter: cut anywhere (inside a delimiter line, a header line, the blank line, a body)
                    let k = crate::fw::util::pick_idx(*cut, full.len());
                    let p = &full[..k];
                    // in the library's own convention (FormMultipartData::generate) the last delimiter carries no "--": a prefix that ends right after a
                    // delimiter line is a complete body with fewer parts, not a truncated one
                    let q = p.strip_suffix(b"\r\n").or_else(|| p.strip_suffix(b"\n")).or_else(|| p.strip_suffix(b"\r")).unwrap_or(p);
                    let b = boundary.as_bytes();
                    if q.ends_with(b) && (q.len() == b.len() || q[q.len() - b.len() - 1] == b'\n') { return Verdict::Discard; }
                    (p.to_vec(), "truncated-at-an-arbitrary-byte", "missing-closing-boundary-accepted") }
                0 => (full[boundary.len() + 2..].to_vec(), "opening-delimiter-removed", "missing-opening-boundary-accepted"),
                1 => { // truncate inside the last part's body / right after it (closing delimiter missing)
                    let end = full.len() - boundary.len() - 2; // before CRLF + closing boundary
                    (full[..end].to_vec(), "closing-delimiter-removed-after-complete-part", "missing-closing-boundary-accepted") }
                2 => { // truncate right after the headers of the last part
                    let last = parts.last().unwrap();
                    let end = full.len() - boundary.len() - 2 - last.body.0.len();
                    (full[..end].to_vec(), "truncated-after-part-headers", "truncated-after-headers-accepted") }
                3 => { // truncate somewhere inside the last body
                    let last = parts.last().unwrap();
                    if last.body.0.is_empty() { return Verdict::Discard; }
                    let k = crate::fw::util::pick_idx(*cut, last.body.0.len());
                    let end = full.len() - boundary.len() - 2 - last.body.0.len() + k;
                    (full[..end].to_vec(), "truncated-inside-body", "missing-closing-boundary-accepted") }
                _ => { // a part without headers
                    let mut v = boundary.as_bytes().to_vec(); v.extend_from_slice(b"\r\n\r\nbody\r\n"); v.extend_from_slice(boundary.as_bytes());
                    (v, "part-without-headers", "part-without-headers-accepted") }
            };
            match catch(|| FormMultipartData::parse(&bytes, boundary.clone())) {
                Err((m, loc)) => Verdict::fail(format!("panic:parse:{}", m), format!("panic at {} on a {} body", loc, class)),
                Ok(Ok(got)) => ctx.judge(vec![(sig.to_string(), format!("{}: parse returned Ok({} part(s)) for {}", class, got.len(), crate::fw::util::lossy(&bytes, 200)))], true, vec![class]),
                Ok(Err(_)) => Verdict::passc(true, vec![class]),
            }
        }
        Case::Echo { fields, boundary } => {
            let delim = format!("--{}", boundary);
            let mut body = vec![];
            for (n, v) in fields { body.extend_from_slice(format!("{}\r\nContent-Disposition: form-data; name=\"{}\"\r\n\r\n{}\r\n", delim, n, v).as_bytes()); }
            body.extend_from_slice(format!("{}--\r\n", delim).as_bytes());
            if fields.iter().any(|(n, v)| n.contains(boundary.as_str()) || v.contains(boundary.as_str())) || "Content-Disposition: form-data; name=".contains(boundary.as_str()) { return Verdict::Discard; }
            let mut req = format!("POST /form-multipart-enctype-post-method HTTP/1.1\r\nHost: localhost\r\nContent-Type: multipart/form-data; boundary={}\r\nContent-Length: {}\r\n\r\n", boundary, body.len()).into_bytes();
            req.extend_from_slice(&body);
            if req.len() > 9000 { return Verdict::Discard; }
            let o = inproc::serve(&req, Transport::default(), 10000, AppKind::Real, Entry::Process);
            if let Err((m, loc)) = &o.result { return Verdict::fail(format!("panic:{}:{}", super::common::panic_module(loc), m), format!("echo endpoint panicked at {}", loc)); }
            let r = match mhttp::parse(&o.out) { Ok(r) => r, Err(p) => return Verdict::fail(format!("unparseable-response:{}", p.sig), String::new()) };
            let text = String::from_utf8_lossy(&r.body).to_string();
            let mut got: Vec<String> = text.split("\r\n").map(|l| l.trim_end().to_string()).filter(|l| !l.is_empty()).collect();
            let mut want: Vec<String> = fields.iter().map(|(n, v)| format!("{} is {}", n, v).trim_end().to_string()).collect();
            got.sort(); want.sort();
            let mut problems = vec![];
            if r.status != 200 { problems.push((format!("echo-endpoint-status-{}", r.status), format!("fields {:?} boundary {:?}: {}", fields, boundary, text))); }
            else if got != want { problems.push(("echo-differs-from-submitted-fields".into(), format!("echoed {:?}, submitted {:?}", got, want))); }
            ctx.judge(problems, fields.len() >= 3 || fields.iter().any(|(_, v)| v.is_empty()), vec!["echo-endpoint"])
        }
    }
}

/// Structure-aware decoding of fuzzer bytes into (boundary, parts, shape): shared by fuzz/fuzz_targets/c16_multipart.rs and the corpus section.
pub fn case_from_fuzz_bytes(data: &[u8]) -> Case {
    use arbitrary::Unstructured;
    let mut u = Unstructured::new(data);
    let alphabet: &[u8] = b"ABCDEFGHIJKLMNOPQRSTUVWXYZabcdefghijklmnopqrstuvwxyz0123456789-'()+_,./:=?";
    let blen = u.int_in_range(1..=70usize).unwrap_or(8);
    let mut boundary = String::new();
    for _ in 0..blen { let i = u.int_in_range(0..=alphabet.len() - 1).unwrap_or(0); boundary.push(alphabet[i] as char); }
    let nparts = u.int_in_range(1..=8usize).unwrap_or(1);
    let mut parts = vec![];
    for k in 0..nparts {
        let nh = u.int_in_range(1..=3usize).unwrap_or(1);
        let mut headers = vec![];
        for h in 0..nh {
            let vlen = u.int_in_range(0..=20usize).unwrap_or(0);
            let mut value = String::from("v");
            for _ in 0..vlen { let c = u.int_in_range(0x21u8..=0x7e).unwrap_or(b'x'); value.push(c as char); }
            headers.push((if h == 0 { "Content-Disposition".to_string() } else { format!("X-H{}", h) }, if h == 0 { format!("form-data; name=\"f{}\"", k) } else { value }));
        }
        let blen = u.int_in_range(0..=300usize).unwrap_or(0);
        let body = u.bytes(blen.min(u.len())).unwrap_or(&[]).to_vec();
        parts.push(PartSpec { headers, body: Bytes(body) });
    }
    let browser = u.arbitrary::<bool>().unwrap_or(false);
    if browser { Case::Browser { parts, boundary, sep: 0 } } else { Case::RoundTrip { parts, boundary } }
}

pub fn run(ctx: &Ctx) {
    crate::fw::inproc::init_env();
    let tree = match super::common::fixed_docroot() { Ok(t) => t, Err(e) => { ctx.inconclusive(&format!("docroot: {}", e)); return; } };
    let max_body = if ctx.quick() { 2048 } else { 65536 };
    ctx.prop("roundtrip", ctx.share(ctx.scale(24_000, 1_000_000)), (parts_strategy(max_body), boundary_strategy()).prop_map(|(parts, boundary)| Case::RoundTrip { parts, boundary }), |c| eval(ctx, c));
    ctx.prop("browser", ctx.share(ctx.scale(12_000, 500_000)), (parts_strategy(max_body), boundary_strategy(), prop_oneof![3 => Just(0u8), 1 => 1u8..4]).prop_map(|(parts, boundary, sep)| Case::Browser { parts, boundary, sep }), |c| eval(ctx, c));
    // near-miss delimiter lines inside bodies (the dash-insensitive match of earlier versions; any non-exact delimiter test)
    ctx.prop("decoys", ctx.share(ctx.scale(12_000, 500_000)), (parts_strategy(128), boundary_strategy(), decoy_strategy(), any::<bool>()).prop_map(|(parts, boundary, d, browser)| { let parts = with_decoys(parts, &boundary, &d); if browser { Case::Browser { parts, boundary, sep: 0 } } else { Case::RoundTrip { parts, boundary } } }), |c| eval(ctx, c));
    ctx.prop("negatives", ctx.share(ctx.scale(12_000, 500_000)), (parts_strategy(256), boundary_strategy(), 0u8..9, any::<u16>()).prop_map(|(parts, boundary, what, cut)| Case::Negative { parts, boundary, what, cut }), |c| eval(ctx, c));
    let fields = proptest::collection::vec(("[a-z]{1,8}", "[!-~]([ -~]{0,20}[!-~])?|"), 1..6);
    ctx.prop("echo", ctx.share(ctx.scale(6_000, 200_000)), (fields, "[A-Za-z0-9]{1,30}").prop_map(|(fields, boundary)| Case::Echo { fields, boundary }), |c| eval(ctx, c));
    // saved corpus of the coverage-guided campaigns (corpus/c16/*.pack), decoded like the fuzz target does
    ctx.set_section("corpus");
    super::c04::replay_corpus_with(ctx, "c16", |ctx, data| { let c = case_from_fuzz_bytes(data); (eval(ctx, &c), serde_json::to_value(&c).unwrap_or(Value::Null)) });
    let _ = std::env::set_current_dir("/");
    drop(tree);
}

pub fn replay(ctx: &Ctx, _section: &str, case: &Value) -> Verdict {
    crate::fw::inproc::init_env();
    let _tree = match super::common::fixed_docroot() { Ok(t) => t, Err(e) => return Verdict::fail("replay-docroot-failed", e.to_string()) };
    match serde_json::from_value::<Case>(case.clone()) { Ok(c) => eval(ctx, &c), Err(e) => Verdict::fail("replay-unreadable", e.to_string()) }
}
