//! C06 — serving capacity survives any history of connections (real binary over loopback + mock-transport faults in-process).
use super::common::*;
use crate::fw::greq::FIXED_PATHS;
use crate::fw::inproc::AppKind;
use crate::fw::mock::{Transport, WriteScript};
use crate::fw::net::{self, Outcome, Server, ServerOpts};
use crate::fw::util::Bytes;
use crate::fw::{mhttp, Ctx, RunSpec, Tier, Verdict};
use proptest::prelude::*;
use serde::{Deserialize, Serialize};
use serde_json::Value;
use std::io::Write;
use std::time::Duration;

pub fn spec(tier: Tier) -> RunSpec {
    let mut s = super::base_spec(
        8,
        "section histories (real rws binary, N in {1,2,4,8} workers): sequences of 1..300 connections drawn from valid GET/HEAD/POST requests, every known fault-provoking request class (target without slash, junk Content-Length, \
':abc/' authority, suffix range larger than the file, binary form bodies, thousands of header lines, query-first target), generated G-REQ mutants, connect-and-close, connect-and-RST (SO_LINGER 0), half a request then close / RST, \
a full request then RST without reading, stall then close, idle connections held across later operations, floods of 100-200 simultaneous silent connections against a server limited to 40-80 file descriptors (section descriptor-exhaustion: accept fails for a while, which must pass), quiet periods without any client activity (up to 40 ms inside generated histories; section quiet-periods: 6.5 s quick, up to 61 s thorough), and queued variants performed while the server is SIGSTOPped (the acceptor finds dead connections in its backlog). \
Invariant after the history: the process is running, all worker threads 0..N-1 exist in /proc/<pid>/task, a valid probe is answered 200 with the right body, and with N-1 idle connections pinning N-1 workers a request on an N-th connection is answered. \
section transport-faults (in-process): Server::process on a mock transport with read error, write error at byte k, Ok(0), flush error must return (Ok or Err) without panicking. \
section pool-under-failing-jobs (shuttle engine /verif/sched; evaluations there are schedules): pool sizes 1..8 with task lists that contain panicking jobs, followed by full-width rendezvous groups - a panicking or blocking job must never remove a worker. \
Non-trivial = the history contains a fault operation followed by at least N further operations; distinct by operation sequence.",
        &["every stalled or idle connection is closed before the probes (there is no read timeout: N open idle connections legitimately occupy N workers)",
          "a probe that neither answers nor closes within 5 s while process and worker set are healthy is reported as inconclusive, not as a violation"],
        if tier == Tier::Quick { 900 } else { 14400 },
    );
    // a history is bounded (it ends at the first time-out) and Server::process on a mock transport returns within microseconds:
    // a case that has not ended after 120 s did not return - a worker that is lost for good
    s.case_limit_s = 120;
    s.hang_is_violation = true;
    // the pool half runs in the shuttle engine
    s.foreign_workers = Some((super::c07::sched_bin(), 4));
    s
}

#[derive(Clone, Debug, Serialize, Deserialize, PartialEq)]
pub enum Op {
    Valid(u8),
    Faulty(u8),
    Mutant(Bytes),
    ConnectClose,
    ConnectReset,
    HalfThenClose(u16),
    HalfThenReset(u16),
    FullThenReset(u8),
    StallThenClose(u8),
    IdleHold(u8),
    QueuedClose(u8),
    QueuedReset(u8),
    QueuedRequests(u8),
    /// no client activity for that many milliseconds
    Quiet(u16),
    /// ten times that many connections are opened at once and say nothing for 30 ms, then all of them end (every other one by reset)
    Flood(u8),
}

#[derive(Clone, Debug, Serialize, Deserialize)]
pub struct History { pub workers: u8, pub ops: Vec<Op>,
    /// the server runs with this limit on open file descriptors (a flood can then use them up: accept fails for a while, which must pass)
    #[serde(default)] pub nofile: Option<u16> }

pub fn valid_request(k: u8) -> Vec<u8> {
    match k % 6 {
        0 => b"GET /a.txt HTTP/1.1\r\nHost: localhost\r\n\r\n".to_vec(),
        1 => b"HEAD /a.txt HTTP/1.1\r\nHost: localhost\r\n\r\n".to_vec(),
        2 => b"POST /form-url-encoded-enctype-post-method HTTP/1.1\r\nContent-Type: application/x-www-form-urlencoded\r\n\r\nfield=value".to_vec(),
        3 => b"GET /big.bin HTTP/1.1\r\nRange: bytes=100-199\r\n\r\n".to_vec(),
        4 => b"GET /missing HTTP/1.1\r\n\r\n".to_vec(),
        _ => format!("GET {} HTTP/1.1\r\nHost: localhost\r\n\r\n", FIXED_PATHS[k as usize % FIXED_PATHS.len()]).into_bytes(),
    }
}

/// Request classes that made request handling fail internally on the pinned tree (each was a distinct root cause).
pub fn faulty_request(k: u8) -> Vec<u8> {
    match k % 12 {
        0 => b"GET x HTTP/1.1\r\n\r\n".to_vec(),
        1 => b"GET / HTTP/1.1\r\nContent-Length: a\r\n\r\n".to_vec(),
        2 => b"GET :abc/ HTTP/1.1\r\n\r\n".to_vec(),
        3 => b"GET /a.txt HTTP/1.1\r\nRange: bytes=-11\r\n\r\n".to_vec(),
        4 => b"POST /form-url-encoded-enctype-post-method HTTP/1.1\r\nContent-Type: application/x-www-form-urlencoded\r\n\r\na=%ff&b=\xff\xfe".to_vec(),
        5 => { let mut v = b"GET / HTTP/1.1\r\n".to_vec(); for _ in 0..4900 { v.extend_from_slice(b"a\n"); } v.extend_from_slice(b"\r\n"); v }
        6 => b"POST /form-multipart-enctype-post-method HTTP/1.1\r\nContent-Type: multipart/form-data; boundary=XB\r\n\r\n--XB\r\nContent-Disposition: form-data; name=\"a\"; filename=\"f\"\r\n\r\n\xff\xfe\r\n--XB--\r\n".to_vec(),
        7 => b"GET ?:/ HTTP/1.1\r\n\r\n".to_vec(),
        8 => b"GET # HTTP/1.1\r\n\r\n".to_vec(),
        9 => b"POST /form-multipart-enctype-post-method HTTP/1.1\r\nContent-Type: multipart/form-data; boundary=XB\r\n\r\n--XB\r\nContent-Disposition: form-data\r\n\r\nv\r\n--XB--\r\n".to_vec(),
        10 => b"\xff\xfe\x00garbage\r\n\r\n".to_vec(),
        _ => b"GET /../../../../etc/hostname HTTP/1.1\r\nRange: bytes=0-\r\n\r\n".to_vec(),
    }
}

fn op_strategy() -> impl Strategy<Value = Op> {
    prop_oneof![
        6 => any::<u8>().prop_map(Op::Valid),
        5 => any::<u8>().prop_map(Op::Faulty),
        3 => crate::fw::greq::case_strategy().prop_map(|c| Op::Mutant(Bytes(c.render(10000)))),
        2 => Just(Op::ConnectClose),
        3 => Just(Op::ConnectReset),
        2 => any::<u16>().prop_map(Op::HalfThenClose),
        2 => any::<u16>().prop_map(Op::HalfThenReset),
        2 => any::<u8>().prop_map(Op::FullThenReset),
        1 => (1u8..20).prop_map(Op::StallThenClose),
        1 => (1u8..6).prop_map(Op::IdleHold),
        1 => (1u8..6).prop_map(Op::QueuedClose),
        2 => (1u8..6).prop_map(Op::QueuedReset),
        1 => (1u8..12).prop_map(Op::QueuedRequests),
        1 => (1u16..40).prop_map(Op::Quiet),
    ]
}

fn history_strategy(max_ops: usize) -> impl Strategy<Value = History> {
    (prop::sample::select(vec![1u8, 2, 4, 8]), prop_oneof![3 => proptest::collection::vec(op_strategy(), 1..40), 2 => proptest::collection::vec(op_strategy(), 40..max_ops)])
        .prop_map(|(workers, ops)| History { workers, ops, nofile: None })
}

const LIMIT: Duration = Duration::from_secs(3);

fn is_fault(op: &Op) -> bool { !matches!(op, Op::Valid(_) | Op::Quiet(_)) }

/// One request on a fresh connection. If nothing arrives within LIMIT while other client connections are open, those are closed and the
/// same connection is read again: a response that arrives only then was waiting behind them (second value true) - a causal signal, not a timer.
fn request_releasing(srv: &Server, req: &[u8], others: &mut Vec<std::net::TcpStream>) -> (net::Exchange, bool) {
    let mut s = match srv.connect() { Ok(s) => s, Err(e) => return (net::Exchange { bytes: vec![], outcome: Outcome::ConnectFailed(e.to_string()) }, false) };
    if let Err(e) = s.write_all(req) { return (net::Exchange { bytes: vec![], outcome: Outcome::WriteFailed(e.to_string()) }, false); }
    let ex = net::read_all(&mut s, LIMIT);
    if ex.outcome == Outcome::TimedOut && ex.bytes.is_empty() && !others.is_empty() {
        others.clear();
        let again = net::read_all(&mut s, LIMIT);
        let helped = !again.bytes.is_empty();
        return (again, helped);
    }
    (ex, false)
}

pub fn run_history(ctx: &Ctx, docroot: &std::path::Path, h: &History) -> Verdict {
    let n = h.workers.max(1) as u32;
    let mut opts = ServerOpts::new(docroot, n);
    opts.nofile = h.nofile.map(|v| v as u64);
    let mut srv = match Server::start(&opts) { Ok(s) => s, Err(e) => { ctx.inconclusive(&format!("server start: {}", e)); return Verdict::Discard; } };
    let mut held: Vec<std::net::TcpStream> = vec![];
    let mut problems: Vec<(String, String)> = vec![];
    let mut stalled: Option<String> = None;
    let describe_op = |i: usize, op: &Op| format!("after operation {} ({})", i, match op { Op::Mutant(b) => format!("Mutant {}", crate::fw::util::lossy(&b.0, 60)), o => format!("{:?}", o) });
    'ops: for (i, op) in h.ops.iter().enumerate() {
        let t_op = std::time::Instant::now();
        let held_before = held.len();
        match op {
            Op::Valid(k) => {
                // with idle connections held, a valid request may legitimately wait for a free worker: release them first if the pool is full
                if held.len() as u32 >= n { held.clear(); }
                let req = valid_request(*k);
                let (ex, released) = request_releasing(&srv, &req, &mut held);
                if released {
                    // repeat once with the same number of idle connections: the dependency must show again before it counts
                    for _ in 0..held_before { if let Ok(s) = srv.connect() { held.push(s); } }
                    std::thread::sleep(Duration::from_millis(5));
                    let (_, again) = request_releasing(&srv, &req, &mut held);
                    if again { problems.push(("capacity-lost".into(), format!("{}: with {} idle connection(s) held on a {}-worker server a valid request was answered only after they were closed (observed twice)", describe_op(i, op), held_before, n))); break 'ops; }
                    ctx.note("valid-request-answered-late-once");
                }
                match (&ex.outcome, mhttp::parse(&ex.bytes)) {
                    (Outcome::Closed, Ok(r)) | (Outcome::Reset(_), Ok(r)) => {
                        let want: u16 = match k % 6 { 3 => 206, 4 => 404, 5 => if FIXED_PATHS[*k as usize % FIXED_PATHS.len()] == "/missing" || FIXED_PATHS[*k as usize % FIXED_PATHS.len()].starts_with("/noindex") && !FIXED_PATHS[*k as usize % FIXED_PATHS.len()].ends_with(".css") { 404 } else { 200 }, _ => 200 };
                        if r.status != want { problems.push(("valid-request-answered-with-wrong-status".into(), format!("{}: status {} where {} is expected", describe_op(i, op), r.status, want))); break 'ops; }
                    }
                    (Outcome::TimedOut, _) => { stalled = Some(describe_op(i, op)); held.clear(); let busy = srv.busy_workers(Duration::from_millis(80)); if !busy.is_empty() { problems.push(("worker-never-returns-to-the-queue".into(), format!("{}: no response within {:?}; with every other connection closed the worker thread(s) {:?} keep running", describe_op(i, op), LIMIT, busy))); break 'ops; } if srv.exited().is_none() && srv.missing_workers().is_empty() { ctx.inconclusive(&format!("valid request not answered within {:?} although process and workers look healthy ({})", LIMIT, describe_op(i, op))); return Verdict::Discard; } problems.push(("valid-request-not-answered".into(), format!("{}: no response within {:?}; exited={:?} missing workers={:?}", describe_op(i, op), LIMIT, srv.exited(), srv.missing_workers()))); break 'ops; }
                    (o, _) => { problems.push(("valid-request-not-answered".into(), format!("{}: outcome {:?}, {} bytes; exited={:?} missing workers={:?}", describe_op(i, op), o, ex.bytes.len(), srv.exited(), srv.missing_workers()))); break 'ops; }
                }
            }
            Op::Faulty(k) => { if held.len() as u32 >= n { held.clear(); } if srv.roundtrip(&faulty_request(*k), LIMIT).outcome == Outcome::TimedOut { stalled = Some(describe_op(i, op)); break 'ops; } }
            Op::Mutant(b) => { if held.len() as u32 >= n { held.clear(); } if srv.roundtrip(&b.0, LIMIT).outcome == Outcome::TimedOut { stalled = Some(describe_op(i, op)); break 'ops; } }
            Op::ConnectClose => { if let Ok(s) = srv.connect() { drop(s); } }
            Op::ConnectReset => { if let Ok(s) = srv.connect() { net::reset(s); } }
            Op::HalfThenClose(f) | Op::HalfThenReset(f) => {
                let req = valid_request((*f % 7) as u8);
                let cut = 1 + crate::fw::util::pick_idx(*f, req.len() - 1);
                if let Ok(mut s) = srv.connect() { let _ = s.write_all(&req[..cut]); if matches!(op, Op::HalfThenReset(_)) { net::reset(s); } else { drop(s); } }
            }
            Op::FullThenReset(k) => { if let Ok(mut s) = srv.connect() { let _ = s.write_all(&valid_request(*k)); net::reset(s); } }
            Op::StallThenClose(ms) => { if let Ok(s) = srv.connect() { std::thread::sleep(Duration::from_millis(*ms as u64)); drop(s); } }
            Op::Quiet(ms) => { std::thread::sleep(Duration::from_millis(*ms as u64)); }
            Op::Flood(k) => {
                let mut flood = vec![];
                for _ in 0..(*k as usize * 10) { if let Ok(s) = std::net::TcpStream::connect_timeout(&srv.addr, Duration::from_millis(200)) { flood.push(s); } }
                std::thread::sleep(Duration::from_millis(30));
                for (j, s) in flood.into_iter().enumerate() { if j % 2 == 0 { net::reset(s); } else { drop(s); } }
                // what was accepted is answered into closed sockets now; give the backlog a moment to drain
                std::thread::sleep(Duration::from_millis(40));
            }
            Op::IdleHold(k) => { for _ in 0..*k { if held.len() < 16 { if let Ok(s) = srv.connect() { held.push(s); } } } }
            Op::QueuedClose(k) | Op::QueuedReset(k) | Op::QueuedRequests(k) => {
                if matches!(op, Op::QueuedRequests(_)) && held.len() as u32 >= n { held.clear(); }
                srv.sigstop();
                let mut pending = vec![];
                for j in 0..*k {
                    if let Ok(mut s) = srv.connect() {
                        match op {
                            Op::QueuedClose(_) => drop(s),
                            Op::QueuedReset(_) => net::reset(s),
                            _ => { let _ = s.write_all(&valid_request(j)); pending.push(s); }
                        }
                    }
                }
                srv.sigcont();
                for mut s in pending { let ex = net::read_all(&mut s, LIMIT); if ex.bytes.is_empty() && held.is_empty() { if let Some(e) = srv.exited() { problems.push(("server-process-gone".into(), format!("{}: {}", describe_op(i, op), e))); break 'ops; } } }
            }
        }
        if t_op.elapsed() > Duration::from_secs(2) { let name = format!("{:?}", op); ctx.note(&format!("slow-op:{}:held={}:n={}", name.split(|c| c == '(' || c == ' ').next().unwrap_or("?"), held_before, n)); }
        if let Some(e) = srv.exited() { problems.push(("server-process-gone".into(), format!("{}: the server process ended with {} ({})", describe_op(i, op), e, srv.log_tail()))); break 'ops; }
    }
    held.clear();
    if problems.is_empty() {
        // every client connection is closed now: after a moment for queued work, no worker may still be running
        if let Some(e) = srv.exited() { problems.push(("server-process-gone".into(), format!("after the history: {}", e))); }
        else if { std::thread::sleep(Duration::from_millis(if stalled.is_some() { 100 } else { 10 })); let b = srv.busy_workers(Duration::from_millis(60)); !b.is_empty() && { std::thread::sleep(Duration::from_millis(300)); !srv.busy_workers(Duration::from_millis(80)).is_empty() } } {
            let busy = srv.busy_workers(Duration::from_millis(80));
            problems.push(("worker-never-returns-to-the-queue".into(), format!("after the history, with every client connection closed, the worker thread(s) {:?} of {} keep running (state R / CPU time advancing){}", busy, n, stalled.as_ref().map(|s| format!("; the history stalled {}", s)).unwrap_or_default())));
        }
        else {
            // a valid probe
            let ex = srv.roundtrip(&valid_request(0), LIMIT);
            let ok = matches!(mhttp::parse(&ex.bytes), Ok(ref r) if r.status == 200 && r.body.len() == 10);
            let missing = srv.missing_workers();
            if !missing.is_empty() { problems.push(("worker-thread-gone".into(), format!("after the history the worker thread(s) {:?} of {} no longer exist (threads: {:?})", missing, n, srv.thread_names()))); }
            else if !ok {
                if ex.outcome == Outcome::TimedOut && srv.exited().is_none() { ctx.inconclusive("probe not answered within the limit although process and workers look healthy"); return Verdict::Discard; }
                problems.push(("probe-not-answered-after-history".into(), format!("probe GET /a.txt -> {:?}, {} bytes; exited={:?}", ex.outcome, ex.bytes.len(), srv.exited())));
            } else {
                // capacity probe: N-1 idle connections pin N-1 workers, the N-th connection must still be served
                let mut idle = vec![];
                for _ in 0..n.saturating_sub(1) { if let Ok(s) = srv.connect() { idle.push(s); } }
                std::thread::sleep(Duration::from_millis(5));
                let pinned = idle.len();
                let (ex, released) = request_releasing(&srv, &valid_request(0), &mut idle);
                let ok = matches!(mhttp::parse(&ex.bytes), Ok(ref r) if r.status == 200);
                if released {
                    // repeat once: the dependency on the idle connections must show again before it counts
                    let mut idle2 = vec![];
                    for _ in 0..n.saturating_sub(1) { if let Ok(s) = srv.connect() { idle2.push(s); } }
                    std::thread::sleep(Duration::from_millis(5));
                    let (_, again) = request_releasing(&srv, &valid_request(0), &mut idle2);
                    if again { problems.push(("capacity-lost".into(), format!("with {} idle connections on a {}-worker server the next request was answered only after the idle connections were closed (observed twice): fewer than {} connections are served simultaneously", pinned, n, n))); }
                    else { ctx.inconclusive("capacity probe answered late once, promptly on repetition"); return Verdict::Discard; }
                } else if !ok {
                    let missing = srv.missing_workers();
                    if ex.outcome == Outcome::TimedOut && missing.is_empty() && srv.exited().is_none() { ctx.inconclusive("capacity probe not answered within the limit although process and workers look healthy"); return Verdict::Discard; }
                    problems.push(("capacity-lost".into(), format!("with {} idle connections on a {}-worker server the next request got {:?} ({} bytes); missing workers {:?}; exited={:?}", idle.len(), n, ex.outcome, ex.bytes.len(), missing, srv.exited())));
                }
                drop(idle);
            }
        }
    }
    let first_fault = h.ops.iter().position(is_fault);
    let nontrivial = first_fault.map(|p| h.ops.len() - p - 1 >= n as usize).unwrap_or(false);
    let mut classes = vec![];
    if h.ops.iter().any(|o| matches!(o, Op::QueuedReset(_))) { classes.push("queued-reset"); }
    if h.ops.iter().any(|o| matches!(o, Op::ConnectReset | Op::HalfThenReset(_) | Op::FullThenReset(_))) { classes.push("reset"); }
    if h.ops.iter().any(|o| matches!(o, Op::Faulty(_))) { classes.push("fault-provoking-request"); }
    if h.ops.iter().any(|o| matches!(o, Op::IdleHold(_))) { classes.push("idle-connections-held"); }
    if h.ops.len() > n as usize * 4 { classes.push("longer-than-4N"); }
    classes.push(match n { 1 => "workers-1", 2 => "workers-2", 4 => "workers-4", _ => "workers-8" });
    ctx.judge(problems, nontrivial, classes)
}

#[derive(Clone, Debug, Serialize, Deserialize)]
pub struct FaultCase { pub request: u8, pub faulty: bool, pub script: WriteScript, pub flush_err: bool, pub read_err: bool }

pub fn eval_fault(ctx: &Ctx, c: &FaultCase) -> Verdict {
    let req = if c.faulty { faulty_request(c.request) } else { valid_request(c.request) };
    let e = examine_bytes(req, 10000, AppKind::Real, false, Transport { write: c.script.clone(), read_err: c.read_err, flush_err: c.flush_err });
    let mut problems = vec![];
    if let Err((m, loc)) = &e.out.result { problems.push((format!("panic-under-transport-fault:{}:{}", panic_module(loc), m), format!("Server::process panicked at {} with {:?} flush_err={} read_err={}", loc, c.script, c.flush_err, c.read_err))); }
    ctx.judge(problems, true, vec![if c.read_err { "read-error" } else if c.flush_err { "flush-error" } else { "write-fault" }])
}

pub fn run(ctx: &Ctx) {
    crate::fw::inproc::init_env();
    let tree = match fixed_docroot() { Ok(t) => t, Err(e) => { ctx.inconclusive(&format!("docroot: {}", e)); return; } };
    let root = tree.root.clone();
    let max_ops = if ctx.quick() { 160 } else { 300 };
    *ctx.max_shrink_iters.borrow_mut() = 24;
    ctx.prop("histories", ctx.share(ctx.scale(480, 6000)), history_strategy(max_ops), |h| run_history(ctx, &root, h));
    // a server left alone for a while must still have all its workers: one long quiet period per native worker (quick: 6.5 s on worker 0; thorough: 6.5 / 16 / 31 / 61 s)
    // - a worker that gives up waiting for connections after some interval only shows after a pause longer than that
    ctx.set_section("quiet-periods");
    let long: Option<u16> = if ctx.tier == Tier::Thorough { [6500u16, 16_000, 31_000, 61_000].get(ctx.worker as usize).copied() } else if ctx.worker == 0 { Some(6500) } else { None };
    if let Some(ms) = long {
        for workers in if ctx.tier == Tier::Thorough { vec![4u8, 2] } else { vec![4u8] } {
            let h = History { workers, ops: vec![Op::Valid(0), Op::Valid(3), Op::Quiet(ms), Op::Valid(1)], nofile: None };
            ctx.inflight_ser(&h);
            let v = run_history(ctx, &root, &h);
            let hh = h.clone();
            ctx.count(&v, crate::fw::hash64(&format!("{:?}", h)), || serde_json::to_value(&hh).unwrap());
        }
        ctx.clear_inflight();
    }
    // floods: more simultaneous connections than the server has file descriptors for (limit 40..80, 100..200 connections), between valid requests
    let floods = (prop::sample::select(vec![1u8, 2, 4]), 40u16..80, proptest::collection::vec(prop_oneof![2 => any::<u8>().prop_map(Op::Valid), 2 => (10u8..20).prop_map(Op::Flood), 1 => any::<u8>().prop_map(Op::Faulty), 1 => Just(Op::ConnectReset)], 2..8))
        .prop_map(|(workers, nofile, mut ops)| { if !ops.iter().any(|o| matches!(o, Op::Flood(_))) { ops.push(Op::Flood(15)); } History { workers, ops, nofile: Some(nofile) } });
    ctx.prop("descriptor-exhaustion", ctx.share(ctx.scale(24, 800)), floods, |h| run_history(ctx, &root, h));
    let fs = (any::<u8>(), any::<bool>(), prop_oneof![3 => (0usize..800).prop_map(WriteScript::ErrAfter), 1 => Just(WriteScript::Zero), 1 => Just(WriteScript::Unlimited), 1 => (1usize..50).prop_map(WriteScript::Chunk)], proptest::bool::weighted(0.3), proptest::bool::weighted(0.2))
        .prop_map(|(request, faulty, script, flush_err, read_err)| FaultCase { request, faulty, script, flush_err, read_err });
    ctx.prop("transport-faults", ctx.share(ctx.scale(8_000, 400_000)), fs, |c| eval_fault(ctx, c));
    let _ = std::env::set_current_dir("/");
    drop(tree);
}

pub fn replay(ctx: &Ctx, section: &str, case: &Value) -> Verdict {
    crate::fw::inproc::init_env();
    let tree = match fixed_docroot() { Ok(t) => t, Err(e) => return Verdict::fail("replay-docroot-failed", e.to_string()) };
    if section == "pool-under-failing-jobs" { return super::c07::replay_sched(ctx, section, case); }
    if section == "transport-faults" { return match serde_json::from_value::<FaultCase>(case.clone()) { Ok(c) => eval_fault(ctx, &c), Err(e) => Verdict::fail("replay-unreadable", e.to_string()) }; }
    match serde_json::from_value::<History>(case.clone()) { Ok(h) => run_history(ctx, &tree.root, &h), Err(e) => Verdict::fail("replay-unreadable", e.to_string()) }
}
