//! C19 — JSON serialisation round-trips and is valid JSON.
use crate::core::New;
use crate::fw::{catch, Ctx, RunSpec, Tier, Verdict};
use crate::json::array::boolean::JSONArrayOfBooleans;
use crate::json::array::float::JSONArrayOfFloats;
use crate::json::array::integer::JSONArrayOfIntegers;
use crate::json::array::null::JSONArrayOfNulls;
use crate::json::array::object::JSONArrayOfObjects;
use crate::json::array::string::JSONArrayOfStrings;
use crate::json::object::{FromJSON, ToJSON, JSON};
use crate::json::property::{JSONProperty, JSONValue};
use crate::json::JSON_TYPE;
use crate::null::Null;
use proptest::prelude::*;
use serde::{Deserialize, Serialize};
use serde_json::Value;

pub fn spec(tier: Tier) -> RunSpec {
    super::base_spec(
        8,
        "values of a struct implementing the library's New / ToJSON / FromJSON traits exactly in the style the README prescribes, with every field kind Option-wrapped for present/absent: String, bool, i128 (full range, extremes, negatives), \
f64 (0, negatives, integral, sub-normal, 17 significant digits, 1e300; finite), nested object, array of objects (nesting depth 0..4), and typed arrays Vec<i8..i128, u8..u128, f32, f64, String, bool, Null> of length 0..64; \
strings are printable text without '\"' and '\\\\' with ASCII punctuation incl. { } [ ] , : over-represented, non-ASCII reported as a class. \
Oracle: T::parse_json(x.to_json_string()) == x (floats by bit pattern except +-0) and the text is accepted by serde_json (arbitrary precision) with the same tree: integers exactly, floats by str::parse::<f64> of the literal. \
Non-trivial = a negative or extreme number, an empty object/array, a string with a structural character, nesting depth >= 2; distinct by value.",
        &["the struct's set_properties accepts an integer token for an f64 field (5.0 is written as 5)", "serde_json is the independent JSON parser"],
        if tier == Tier::Quick { 600 } else { 7200 },
    )
}

// ---- the value model (serialisable case) --------------------------------------------------------
#[derive(Clone, Debug, Serialize, Deserialize, PartialEq, Default)]
pub struct Obj {
    pub s: Option<String>, pub b: Option<bool>,
    /// i128 as decimal text, f64 as bit pattern (lossless in the replay file)
    pub i: Option<String>, pub f: Option<u64>,
    pub o: Option<Box<Obj>>, pub a: Option<Vec<Obj>>,
    pub ai8: Option<Vec<i8>>, pub ai16: Option<Vec<i16>>, pub ai32: Option<Vec<i32>>, pub ai64: Option<Vec<i64>>, pub ai128: Option<Vec<String>>,
    pub au8: Option<Vec<u8>>, pub au16: Option<Vec<u16>>, pub au32: Option<Vec<u32>>, pub au64: Option<Vec<u64>>, pub au128: Option<Vec<String>>,
    pub af32: Option<Vec<u32>>, pub af64: Option<Vec<u64>>, pub astr: Option<Vec<String>>, pub abool: Option<Vec<bool>>, pub anull: Option<u8>,
}

// ---- the struct under the library's traits, written after the README's example --------------------
pub struct JObj { pub v: Obj }

impl New for JObj { fn new() -> Self { JObj { v: Obj::default() } } }

const FIELDS: [(&str, &str); 21] = [("s", "String"), ("b", "bool"), ("i", "i128"), ("f", "f64"), ("o", "object"), ("a", "array"),
    ("ai8", "array"), ("ai16", "array"), ("ai32", "array"), ("ai64", "array"), ("ai128", "array"), ("au8", "array"), ("au16", "array"), ("au32", "array"), ("au64", "array"), ("au128", "array"),
    ("af32", "array"), ("af64", "array"), ("astr", "array"), ("abool", "array"), ("anull", "array")];

impl ToJSON for JObj {
    fn list_properties() -> Vec<JSONProperty> {
        FIELDS.iter().map(|(n, t)| JSONProperty { property_name: n.to_string(), property_type: match *t { "String" => JSON_TYPE.string, "bool" => JSON_TYPE.boolean, "i128" => JSON_TYPE.integer, "f64" => JSON_TYPE.number, "object" => JSON_TYPE.object, _ => JSON_TYPE.array }.to_string() }).collect()
    }
    fn get_property(&self, property_name: String) -> JSONValue {
        let mut value = JSONValue::new();
        let v = &self.v;
        match property_name.as_str() {
            "s" => value.string = v.s.clone(),
            "b" => value.bool = v.b,
            "i" => value.i128 = v.i.as_ref().map(|t| t.parse::<i128>().unwrap()),
            "f" => value.f64 = v.f.map(f64::from_bits),
            "o" => if let Some(o) = &v.o { value.object = Some(JObj { v: (**o).clone() }.to_json_string()); },
            "a" => if let Some(a) = &v.a { let items: Vec<JObj> = a.iter().map(|x| JObj { v: x.clone() }).collect(); value.array = Some(JSONArrayOfObjects::<JObj>::to_json(&items).unwrap()); },
            "ai8" => if let Some(a) = &v.ai8 { value.array = Some(JSONArrayOfIntegers::to_json_from_list_i8(a).unwrap()); },
            "ai16" => if let Some(a) = &v.ai16 { value.array = Some(JSONArrayOfIntegers::to_json_from_list_i16(a).unwrap()); },
            "ai32" => if let Some(a) = &v.ai32 { value.array = Some(JSONArrayOfIntegers::to_json_from_list_i32(a).unwrap()); },
            "ai64" => if let Some(a) = &v.ai64 { value.array = Some(JSONArrayOfIntegers::to_json_from_list_i64(a).unwrap()); },
            "ai128" => if let Some(a) = &v.ai128 { let l: Vec<i128> = a.iter().map(|t| t.parse().unwrap()).collect(); value.array = Some(JSONArrayOfIntegers::to_json_from_list_i128(&l).unwrap()); },
            "au8" => if let Some(a) = &v.au8 { value.array = Some(JSONArrayOfIntegers::to_json_from_list_u8(a).unwrap()); },
            "au16" => if let Some(a) = &v.au16 { value.array = Some(JSONArrayOfIntegers::to_json_from_list_u16(a).unwrap()); },
            "au32" => if let Some(a) = &v.au32 { value.array = Some(JSONArrayOfIntegers::to_json_from_list_u32(a).unwrap()); },
            "au64" => if let Some(a) = &v.au64 { value.array = Some(JSONArrayOfIntegers::to_json_from_list_u64(a).unwrap()); },
            "au128" => if let Some(a) = &v.au128 { let l: Vec<u128> = a.iter().map(|t| t.parse().unwrap()).collect(); value.array = Some(JSONArrayOfIntegers::to_json_from_list_u128(&l).unwrap()); },
            "af32" => if let Some(a) = &v.af32 { let l: Vec<f32> = a.iter().map(|b| f32::from_bits(*b)).collect(); value.array = Some(JSONArrayOfFloats::to_json_from_list_f32(&l).unwrap()); },
            "af64" => if let Some(a) = &v.af64 { let l: Vec<f64> = a.iter().map(|b| f64::from_bits(*b)).collect(); value.array = Some(JSONArrayOfFloats::to_json_from_list_f64(&l).unwrap()); },
            "astr" => if let Some(a) = &v.astr { value.array = Some(JSONArrayOfStrings::to_json_from_list_string(a).unwrap()); },
            "abool" => if let Some(a) = &v.abool { value.array = Some(JSONArrayOfBooleans::to_json_from_list_bool(a).unwrap()); },
            "anull" => if let Some(n) = &v.anull { let nul = Null {}; let l: Vec<&Null> = (0..*n).map(|_| &nul).collect(); value.array = Some(JSONArrayOfNulls::to_json_from_list_null(&l).unwrap()); },
            _ => {}
        }
        value
    }
    fn to_json_string(&self) -> String {
        let mut processed_data = vec![];
        for property in JObj::list_properties() {
            let value = self.get_property(property.property_name.to_string());
            processed_data.push((property, value));
        }
        JSON::to_json_string(processed_data)
    }
}

impl FromJSON for JObj {
    fn parse_json_to_properties(&self, json_string: String) -> Result<Vec<(JSONProperty, JSONValue)>, String> { JSON::parse_as_properties(json_string) }
    fn set_properties(&mut self, properties: Vec<(JSONProperty, JSONValue)>) -> Result<(), String> {
        for (property, value) in properties {
            let v = &mut self.v;
            macro_rules! arr { ($field:ident, $parse:path, $map:expr) => { if let Some(a) = value.array { match $parse(a) { Ok(l) => { v.$field = Some(l.into_iter().map($map).collect()); } Err(e) => return Err(e) } } else { v.$field = None; } } }
            match property.property_name.as_str() {
                "s" => v.s = value.string,
                "b" => v.b = value.bool,
                "i" => v.i = value.i128.map(|x| x.to_string()),
                // an integral float is written without a fraction (5.0 -> 5): the integer token is accepted for the f64 field
                "f" => v.f = match (value.f64, value.i128) { (Some(f), _) => Some(f.to_bits()), (None, Some(i)) => Some((i as f64).to_bits()), _ => None },
                "o" => { if let Some(text) = value.object { let mut o = JObj::new(); o.parse(text)?; v.o = Some(Box::new(o.v)); } else { v.o = None; } }
                "a" => { if let Some(text) = value.array { let l = JSONArrayOfObjects::<JObj>::from_json(text)?; v.a = Some(l.into_iter().map(|x| x.v).collect()); } else { v.a = None; } }
                "ai8" => arr!(ai8, JSONArrayOfIntegers::parse_as_list_i8, |x| x), "ai16" => arr!(ai16, JSONArrayOfIntegers::parse_as_list_i16, |x| x),
                "ai32" => arr!(ai32, JSONArrayOfIntegers::parse_as_list_i32, |x| x), "ai64" => arr!(ai64, JSONArrayOfIntegers::parse_as_list_i64, |x| x),
                "ai128" => arr!(ai128, JSONArrayOfIntegers::parse_as_list_i128, |x: i128| x.to_string()),
                "au8" => arr!(au8, JSONArrayOfIntegers::parse_as_list_u8, |x| x), "au16" => arr!(au16, JSONArrayOfIntegers::parse_as_list_u16, |x| x),
                "au32" => arr!(au32, JSONArrayOfIntegers::parse_as_list_u32, |x| x), "au64" => arr!(au64, JSONArrayOfIntegers::parse_as_list_u64, |x| x),
                "au128" => arr!(au128, JSONArrayOfIntegers::parse_as_list_u128, |x: u128| x.to_string()),
                "af32" => arr!(af32, JSONArrayOfFloats::parse_as_list_f32, |x: f32| x.to_bits()), "af64" => arr!(af64, JSONArrayOfFloats::parse_as_list_f64, |x: f64| x.to_bits()),
                "astr" => arr!(astr, JSONArrayOfStrings::parse_as_list_string, |x| x), "abool" => arr!(abool, JSONArrayOfBooleans::parse_as_list_bool, |x| x),
                "anull" => { if let Some(a) = value.array { match JSONArrayOfNulls::parse_as_list_null(a) { Ok(l) => v.anull = Some(l.len() as u8), Err(e) => return Err(e) } } else { v.anull = None; } }
                _ => {}
            }
        }
        Ok(())
    }
    fn parse(&mut self, json_string: String) -> Result<(), String> {
        let properties = self.parse_json_to_properties(json_string)?;
        self.set_properties(properties)
    }
}

impl JObj {
    pub fn parse_json(json: &str) -> Result<JObj, String> { let mut o = JObj::new(); o.parse(json.to_string())?; Ok(o) }
}

// ---- generators -----------------------------------------------------------------------------------
fn text(non_ascii: bool) -> impl Strategy<Value = String> {
    let w = if non_ascii { 2 } else { 0 };
    let ch = prop_oneof![
        10 => "[a-zA-Z0-9 ]",
        5 => prop::sample::select(vec!["{", "}", "[", "]", ",", ":", ";", "'", "!", "?", "-", "+", ".", "/", "#", "%", "&", "=", "<", ">", "(", ")", "*", "@", "~", "_", "|", "^", "$", "`"]).prop_map(|s| s.to_string()),
        w => prop::sample::select(vec!["é", "ж", "中", "😀", "ß", "Ω"]).prop_map(|s| s.to_string()),
        1 => prop::sample::select(vec!["null", "true", "false", "0", "-1", "1e5", " ", "  "]).prop_map(|s| s.to_string()),
    ];
    prop_oneof![1 => Just(String::new()), 16 => proptest::collection::vec(ch.clone(), 1..16).prop_map(|v| v.concat()),
        // long strings (hundreds to thousands of characters)
        1 => (proptest::collection::vec(ch, 1..6), prop::sample::select(vec![100usize, 255, 256, 1000, 4096, 8000])).prop_map(|(v, n)| { let unit = v.concat(); let mut s = String::new(); while s.chars().count() < n { s.push_str(&unit); } s })]
}

fn int128() -> impl Strategy<Value = String> {
    prop_oneof![
        4 => (-1000i128..1000).prop_map(|v| v.to_string()),
        2 => any::<i128>().prop_map(|v| v.to_string()),
        2 => any::<i64>().prop_map(|v| v.to_string()),
        1 => prop::sample::select(vec![i128::MAX, i128::MIN, 0, -1, i64::MAX as i128 + 1, i64::MIN as i128 - 1, u64::MAX as i128, u64::MAX as i128 + 1]).prop_map(|v| v.to_string()),
    ]
}

fn float64() -> impl Strategy<Value = u64> {
    prop_oneof![
        3 => (-1000i32..1000).prop_map(|v| (v as f64).to_bits()),
        3 => (-1.0e6f64..1.0e6).prop_map(|v| v.to_bits()),
        2 => any::<f64>().prop_filter("finite", |v| v.is_finite()).prop_map(|v| v.to_bits()),
        2 => prop::sample::select(vec![0.0f64, -0.0, 0.1, -0.1, 1e300, -1e300, 1e-300, 5e-324, 2.2250738585072014e-308, 0.30000000000000004, 1.7976931348623157e308, 123456789.12345679, 1e21, 1e16, 9007199254740993.0, 0.1 + 0.2]).prop_map(|v| v.to_bits()),
    ]
}

fn float32() -> impl Strategy<Value = u32> {
    prop_oneof![
        3 => (-1000i32..1000).prop_map(|v| (v as f32).to_bits()),
        3 => any::<f32>().prop_filter("finite", |v| v.is_finite()).prop_map(|v| v.to_bits()),
        1 => prop::sample::select(vec![0.0f32, -0.0, 0.1, 3.4028235e38, 1e-45, 16777217.0]).prop_map(|v| v.to_bits()),
    ]
}

fn opt<T: std::fmt::Debug + Clone + 'static>(s: impl Strategy<Value = T> + 'static, p: f64) -> BoxedStrategy<Option<T>> { proptest::option::weighted(p, s).boxed() }

fn array_of<T: std::fmt::Debug + Clone + 'static>(s: impl Strategy<Value = T> + 'static) -> BoxedStrategy<Option<Vec<T>>> {
    // length classes: empty, short, up to 64
    let len = prop_oneof![1 => Just(0usize), 5 => 1usize..6, 1 => 6usize..=64];
    let s = s.boxed();
    proptest::option::weighted(0.12, len.prop_flat_map(move |n| proptest::collection::vec(s.clone(), n..=n))).boxed()
}

fn obj_strategy(depth: u32, na: bool) -> BoxedStrategy<Obj> {
    let scalars = (opt(text(na), 0.6), opt(any::<bool>(), 0.5), opt(int128(), 0.6), opt(float64(), 0.6));
    let ints = (array_of(any::<i8>()), array_of(any::<i16>()), array_of(any::<i32>()), array_of(any::<i64>()), array_of(int128()));
    let uints = (array_of(any::<u8>()), array_of(any::<u16>()), array_of(any::<u32>()), array_of(any::<u64>()), array_of(any::<u128>().prop_map(|v| v.to_string())));
    let others = (array_of(float32()), array_of(float64()), array_of(text(na)), array_of(any::<bool>()), proptest::option::weighted(0.1, 0u8..6));
    let nested: BoxedStrategy<(Option<Box<Obj>>, Option<Vec<Obj>>)> = if depth == 0 { Just((None, None)).boxed() } else {
        (proptest::option::weighted(0.45, obj_strategy(depth - 1, na).prop_map(Box::new)), proptest::option::weighted(0.3, proptest::collection::vec(obj_strategy(depth - 1, na), 0..4))).boxed()
    };
    (scalars, ints, uints, others, nested).prop_map(|((s, b, i, f), (ai8, ai16, ai32, ai64, ai128), (au8, au16, au32, au64, au128), (af32, af64, astr, abool, anull), (o, a))|
        Obj { s, b, i, f, o, a, ai8, ai16, ai32, ai64, ai128, au8, au16, au32, au64, au128, af32, af64, astr, abool, anull }).boxed()
}

// ---- oracle ---------------------------------------------------------------------------------------
fn f_eq(a: u64, b: u64) -> bool { a == b || (f64::from_bits(a) == 0.0 && f64::from_bits(b) == 0.0) }
fn f32_eq(a: u32, b: u32) -> bool { a == b || (f32::from_bits(a) == 0.0 && f32::from_bits(b) == 0.0) }

fn same_obj(w: &Obj, g: &Obj, path: &str) -> Result<(), (String, String)> {
    let d = |what: &str, detail: String| Err((format!("roundtrip-{}", what), format!("{}: {}", path, detail)));
    if w.s != g.s { return d("string", format!("{:?} came back as {:?}", w.s, g.s)); }
    if w.b != g.b { return d("bool", format!("{:?} -> {:?}", w.b, g.b)); }
    if w.i != g.i { return d("integer", format!("{:?} -> {:?}", w.i, g.i)); }
    match (w.f, g.f) { (Some(a), Some(b)) if f_eq(a, b) => {} (None, None) => {} (a, b) => return d("float", format!("{:?} -> {:?}", a.map(f64::from_bits), b.map(f64::from_bits))) }
    match (&w.o, &g.o) { (Some(a), Some(b)) => same_obj(a, b, &format!("{}.o", path))?, (None, None) => {} (a, b) => return d("nested-object-presence", format!("{} -> {}", a.is_some(), b.is_some())) }
    match (&w.a, &g.a) { (Some(a), Some(b)) => { if a.len() != b.len() { return d("object-array-length", format!("{} -> {}", a.len(), b.len())); } for (k, (x, y)) in a.iter().zip(b.iter()).enumerate() { same_obj(x, y, &format!("{}.a[{}]", path, k))?; } } (None, None) => {} (a, b) => return d("object-array-presence", format!("{} -> {}", a.is_some(), b.is_some())) }
    macro_rules! plain { ($f:ident, $n:expr) => { if w.$f != g.$f { return d($n, format!("{:?} -> {:?}", w.$f, g.$f)); } } }
    plain!(ai8, "array-i8"); plain!(ai16, "array-i16"); plain!(ai32, "array-i32"); plain!(ai64, "array-i64"); plain!(ai128, "array-i128");
    plain!(au8, "array-u8"); plain!(au16, "array-u16"); plain!(au32, "array-u32"); plain!(au64, "array-u64"); plain!(au128, "array-u128");
    plain!(astr, "array-string"); plain!(abool, "array-bool"); plain!(anull, "array-null");
    match (&w.af64, &g.af64) { (Some(a), Some(b)) if a.len() == b.len() && a.iter().zip(b.iter()).all(|(x, y)| f_eq(*x, *y)) => {} (None, None) => {} _ => return d("array-f64", format!("{:?} -> {:?}", w.af64.as_ref().map(|v| v.iter().map(|b| f64::from_bits(*b)).collect::<Vec<_>>()), g.af64.as_ref().map(|v| v.iter().map(|b| f64::from_bits(*b)).collect::<Vec<_>>()))) }
    match (&w.af32, &g.af32) { (Some(a), Some(b)) if a.len() == b.len() && a.iter().zip(b.iter()).all(|(x, y)| f32_eq(*x, *y)) => {} (None, None) => {} _ => return d("array-f32", format!("{:?} -> {:?}", w.af32, g.af32)) }
    Ok(())
}

/// Does the tree serde_json read denote the value? (integers exactly, floats by parsing the literal)
fn same_tree(w: &Obj, v: &Value, path: &str) -> Result<(), String> {
    let o = v.as_object().ok_or(format!("{}: not an object", path))?;
    let num = |x: &Value| -> Option<String> { x.as_number().map(|n| n.to_string()) };
    let mut expected_keys = 0;
    macro_rules! key { ($k:expr) => {{ expected_keys += 1; o.get($k).ok_or(format!("{}: key {:?} missing", path, $k))? }} }
    if let Some(s) = &w.s { if key!("s").as_str() != Some(s.as_str()) { return Err(format!("{}.s: {:?} read as {:?}", path, s, o.get("s"))); } }
    if let Some(b) = w.b { if key!("b").as_bool() != Some(b) { return Err(format!("{}.b", path)); } }
    if let Some(i) = &w.i { if num(key!("i")).as_deref() != Some(i.as_str()) { return Err(format!("{}.i: {} read as {:?}", path, i, o.get("i"))); } }
    if let Some(f) = w.f { let lit = num(key!("f")).ok_or(format!("{}.f not a number", path))?; let p: f64 = lit.parse().map_err(|_| format!("{}.f literal {:?}", path, lit))?; if !f_eq(p.to_bits(), f) { return Err(format!("{}.f: {} read as {}", path, f64::from_bits(f), lit)); } }
    if let Some(x) = &w.o { same_tree(x, key!("o"), &format!("{}.o", path))?; }
    if let Some(a) = &w.a { let arr = key!("a").as_array().ok_or(format!("{}.a not an array", path))?; if arr.len() != a.len() { return Err(format!("{}.a length {} read as {}", path, a.len(), arr.len())); } for (k, (x, y)) in a.iter().zip(arr.iter()).enumerate() { same_tree(x, y, &format!("{}.a[{}]", path, k))?; } }
    macro_rules! ints { ($f:ident, $k:expr) => { if let Some(a) = &w.$f { let arr = key!($k).as_array().ok_or(format!("{}.{} not an array", path, $k))?; let got: Vec<String> = arr.iter().map(|x| num(x).unwrap_or_else(|| "?".into())).collect(); let want: Vec<String> = a.iter().map(|x| x.to_string()).collect(); if got != want { return Err(format!("{}.{}: {:?} read as {:?}", path, $k, want, got)); } } } }
    ints!(ai8, "ai8"); ints!(ai16, "ai16"); ints!(ai32, "ai32"); ints!(ai64, "ai64"); ints!(ai128, "ai128"); ints!(au8, "au8"); ints!(au16, "au16"); ints!(au32, "au32"); ints!(au64, "au64"); ints!(au128, "au128");
    if let Some(a) = &w.af64 { let arr = key!("af64").as_array().ok_or("af64 not array")?; if arr.len() != a.len() { return Err(format!("{}.af64 length", path)); } for (x, y) in a.iter().zip(arr.iter()) { let p: f64 = num(y).and_then(|l| l.parse().ok()).ok_or(format!("{}.af64 literal", path))?; if !f_eq(p.to_bits(), *x) { return Err(format!("{}.af64: {} read as {}", path, f64::from_bits(*x), p)); } } }
    if let Some(a) = &w.af32 { let arr = key!("af32").as_array().ok_or("af32 not array")?; if arr.len() != a.len() { return Err(format!("{}.af32 length", path)); } for (x, y) in a.iter().zip(arr.iter()) { let p: f32 = num(y).and_then(|l| l.parse().ok()).ok_or(format!("{}.af32 literal", path))?; if !f32_eq(p.to_bits(), *x) { return Err(format!("{}.af32: {} read as {}", path, f32::from_bits(*x), p)); } } }
    if let Some(a) = &w.astr { let arr = key!("astr").as_array().ok_or("astr not array")?; let got: Vec<Option<&str>> = arr.iter().map(|x| x.as_str()).collect(); let want: Vec<Option<&str>> = a.iter().map(|x| Some(x.as_str())).collect(); if got != want { return Err(format!("{}.astr: {:?} read as {:?}", path, want, got)); } }
    if let Some(a) = &w.abool { let arr = key!("abool").as_array().ok_or("abool not array")?; let got: Vec<Option<bool>> = arr.iter().map(|x| x.as_bool()).collect(); let want: Vec<Option<bool>> = a.iter().map(|x| Some(*x)).collect(); if got != want { return Err(format!("{}.abool", path)); } }
    if let Some(n) = w.anull { let arr = key!("anull").as_array().ok_or("anull not array")?; if arr.len() != n as usize || !arr.iter().all(|x| x.is_null()) { return Err(format!("{}.anull", path)); } }
    if o.len() != expected_keys { return Err(format!("{}: {} keys read, {} written", path, o.len(), expected_keys)); }
    Ok(())
}

fn depth(o: &Obj) -> u32 { 1 + o.o.as_ref().map(|x| depth(x)).unwrap_or(0).max(o.a.as_ref().map(|a| a.iter().map(depth).max().unwrap_or(0)).unwrap_or(0)) }
fn any_obj(o: &Obj, f: &dyn Fn(&Obj) -> bool) -> bool { f(o) || o.o.as_ref().map(|x| any_obj(x, f)).unwrap_or(false) || o.a.as_ref().map(|a| a.iter().any(|x| any_obj(x, f))).unwrap_or(false) }
fn strings(o: &Obj) -> Vec<&String> { o.s.iter().chain(o.astr.iter().flatten()).collect() }
fn is_empty_obj(o: &Obj) -> bool { *o == Obj::default() }

fn map_strings(o: &mut Obj, f: &dyn Fn(&mut String)) {
    if let Some(s) = o.s.as_mut() { f(s); }
    if let Some(v) = o.astr.as_mut() { for s in v.iter_mut() { f(s); } }
    if let Some(n) = o.o.as_mut() { map_strings(n, f); }
    if let Some(v) = o.a.as_mut() { for n in v.iter_mut() { map_strings(n, f); } }
}

pub fn eval(ctx: &Ctx, w: &Obj) -> Verdict {
    let j = JObj { v: w.clone() };
    let text = match catch(|| j.to_json_string()) { Ok(t) => t, Err((m, loc)) => return Verdict::fail(format!("panic:to_json_string:{}", m), loc) };
    let mut problems: Vec<(String, String)> = vec![];
    // input classes behind listed findings
    let non_ascii = any_obj(w, &|o| strings(o).iter().any(|s| !s.is_ascii()));
    // a failure on an input with non-ASCII strings is attributed to the listed finding only if the same input with every non-ASCII
    // character replaced by 'x' passes; if that copy fails as well, its (different) failure is what is reported
    let classify = |generic: String| -> String { if non_ascii { "json-nonascii-string".to_string() } else { generic } };
    match catch(|| JObj::parse_json(&text)) {
        Err((m, loc)) => problems.push((classify(format!("panic:parse_json:{}:{}", super::common::panic_module(&loc), m)), format!("panic at {} on the library's own output: {}", loc, crate::fw::util::lossy(text.as_bytes(), 300)))),
        Ok(Err(e)) => problems.push((classify("parse-rejects-own-output".to_string()), format!("Err({:?}) for {}", e, crate::fw::util::lossy(text.as_bytes(), 300)))),
        Ok(Ok(g)) => if let Err((sig, detail)) = same_obj(w, &g.v, "$") { problems.push((classify(sig), format!("{} in {}", detail, crate::fw::util::lossy(text.as_bytes(), 300)))); }
    }
    match serde_json::from_str::<Value>(&text) {
        Err(e) => problems.push(("output-is-not-valid-json".to_string(), format!("serde_json: {} for {}", e, crate::fw::util::lossy(text.as_bytes(), 300)))),
        Ok(v) => if let Err(e) = same_tree(w, &v, "$") { problems.push(("output-denotes-a-different-value".to_string(), format!("{} in {}", e, crate::fw::util::lossy(text.as_bytes(), 300)))); }
    }
    let neg = any_obj(w, &|o| o.i.as_ref().map(|t| t.starts_with('-') || t.len() > 18).unwrap_or(false) || o.f.map(|b| f64::from_bits(b) < 0.0).unwrap_or(false));
    let structural = any_obj(w, &|o| strings(o).iter().any(|s| s.chars().any(|c| "{}[],:".contains(c))));
    let empties = any_obj(w, &is_empty_obj) || any_obj(w, &|o| o.a.as_ref().map(|a| a.is_empty()).unwrap_or(false) || o.astr.as_ref().map(|a| a.is_empty()).unwrap_or(false) || o.ai64.as_ref().map(|a| a.is_empty()).unwrap_or(false));
    let dp = depth(w);
    let mut classes = vec![];
    if neg { classes.push("negative-or-extreme-number"); }
    if structural { classes.push("string-with-structural-character"); }
    if empties { classes.push("empty-object-or-array"); }
    if dp >= 3 { classes.push("depth>=2"); }
    if non_ascii { classes.push("non-ascii-string"); }
    if non_ascii && problems.iter().any(|(sig, _)| sig == "json-nonascii-string") {
        let mut ascii = w.clone();
        map_strings(&mut ascii, &|s: &mut String| { if !s.is_ascii() { *s = s.chars().map(|c| if c.is_ascii() { c } else { 'x' }).collect(); } });
        if let Verdict::Fail { sig, detail } = eval(ctx, &ascii) { return Verdict::fail(sig, format!("(on the ASCII copy of an input with non-ASCII strings) {}", detail)); }
    }
    ctx.judge(problems, neg || structural || empties || dp >= 3, classes)
}

pub fn run(ctx: &Ctx) {
    ctx.prop("values", ctx.share(ctx.scale(16_000, 600_000)), (0u32..=4, proptest::bool::weighted(0.12)).prop_flat_map(|(d, na)| obj_strategy(d, na)), |c| eval(ctx, c));
}

pub fn replay(ctx: &Ctx, _section: &str, case: &Value) -> Verdict {
    match serde_json::from_value::<Obj>(case.clone()) { Ok(c) => eval(ctx, &c), Err(e) => Verdict::fail("replay-unreadable", e.to_string()) }
}
