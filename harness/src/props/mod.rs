//! One module per property. Each exposes `spec`, `run`, `replay`.
use crate::fw::{Ctx, RunSpec, Tier, Verdict};
use serde_json::Value;

pub struct Prop {
    pub id: &'static str,
    pub spec: fn(Tier) -> RunSpec,
    pub run: fn(&Ctx),
    pub replay: fn(&Ctx, &str, &Value) -> Verdict,
}

pub fn base_spec(workers: u32, rule: &str, assumptions: &[&str], timeout_s: u64) -> RunSpec {
    RunSpec {
        property: String::new(), tier: Tier::Quick, seed: 1, workers,
        rule: rule.to_string(), level: "exploration",
        assumptions: assumptions.iter().map(|s| s.to_string()).collect(), timeout_s,
        case_limit_s: 120, hang_is_violation: false, foreign_workers: None, native_workers: None,
    }
}

pub mod common;
pub mod c01;
pub mod c02;
pub mod c03;
pub mod c04;
pub mod c05;
pub mod c06;
pub mod c07;
pub mod c08;
pub mod c09;
pub mod c10;
pub mod c11;
pub mod c12;
pub mod c13;
pub mod c14;
pub mod c15;
pub mod c16;
pub mod c17;
pub mod c18;
pub mod c19;
pub mod c20;

pub const ALL: &[&str] = &["C01", "C02", "C03", "C04", "C05", "C06", "C07", "C08", "C09", "C10", "C11", "C12", "C13", "C14", "C15", "C16", "C17", "C18", "C19", "C20"];

pub fn lookup(id: &str) -> Option<Prop> {
    match id {
        "C01" => Some(Prop { id: "C01", spec: c01::spec, run: c01::run, replay: c01::replay }),
        "C02" => Some(Prop { id: "C02", spec: c02::spec, run: c02::run, replay: c02::replay }),
        "C03" => Some(Prop { id: "C03", spec: c03::spec, run: c03::run, replay: c03::replay }),
        "C04" => Some(Prop { id: "C04", spec: c04::spec, run: c04::run, replay: c04::replay }),
        "C05" => Some(Prop { id: "C05", spec: c05::spec, run: c05::run, replay: c05::replay }),
        "C06" => Some(Prop { id: "C06", spec: c06::spec, run: c06::run, replay: c06::replay }),
        "C07" => Some(Prop { id: "C07", spec: c07::spec, run: c07::run, replay: c07::replay }),
        "C08" => Some(Prop { id: "C08", spec: c08::spec, run: c08::run, replay: c08::replay }),
        "C09" => Some(Prop { id: "C09", spec: c09::spec, run: c09::run, replay: c09::replay }),
        "C10" => Some(Prop { id: "C10", spec: c10::spec, run: c10::run, replay: c10::replay }),
        "C11" => Some(Prop { id: "C11", spec: c11::spec, run: c11::run, replay: c11::replay }),
        "C12" => Some(Prop { id: "C12", spec: c12::spec, run: c12::run, replay: c12::replay }),
        "C13" => Some(Prop { id: "C13", spec: c13::spec, run: c13::run, replay: c13::replay }),
        "C14" => Some(Prop { id: "C14", spec: c14::spec, run: c14::run, replay: c14::replay }),
        "C15" => Some(Prop { id: "C15", spec: c15::spec, run: c15::run, replay: c15::replay }),
        "C16" => Some(Prop { id: "C16", spec: c16::spec, run: c16::run, replay: c16::replay }),
        "C17" => Some(Prop { id: "C17", spec: c17::spec, run: c17::run, replay: c17::replay }),
        "C18" => Some(Prop { id: "C18", spec: c18::spec, run: c18::run, replay: c18::replay }),
        "C19" => Some(Prop { id: "C19", spec: c19::spec, run: c19::run, replay: c19::replay }),
        "C20" => Some(Prop { id: "C20", spec: c20::spec, run: c20::run, replay: c20::replay }),
        _ => None,
    }
}
