//! C10 — every response carries the hardening and no-cache headers, each exactly once.
use super::common::*;
use crate::fw::greq::LineClass;
use crate::fw::{Ctx, RunSpec, Tier, Verdict};
use proptest::prelude::*;
use serde::{Deserialize, Serialize};
use serde_json::Value;

pub fn spec(tier: Tier) -> RunSpec {
    let mut s = spec0(tier);
    // Server::process on a mock transport (whose read reports end of stream) returns within microseconds; a call that has not
    // returned after 60 s never will - the worker that runs it would be lost for good
    s.case_limit_s = 60;
    s.hang_is_violation = true;
    s
}

fn spec0(tier: Tier) -> RunSpec {
    super::base_spec(
        8,
        "the C04 input space (G-REQ with mutations, three buffer sizes, three application kinds) on both entry points and in both CORS modes (allow-all on; allow-all off with a configured origin list). \
Oracle on the M-HTTP header multiset of every response: exactly once each X-Content-Type-Options: nosniff, X-Frame-Options: SAMEORIGIN, Cache-Control containing no-store and no-cache, Accept-Ranges: bytes, \
a non-empty Accept-CH, and Vary whose comma-separated members include Origin. A quarter of the production-entry cases with the default buffer and the real application are sent to the release binary over loopback instead of Server::process on the mock transport (same oracle; a server-side panic shows as a connection closed without response bytes). Non-trivial = status != 200 or response to a mutated/hostile request; distinct by case. Crashed requests are C04's.",
        &["a response produced by a custom Application that builds its own header list is outside the statement; the Fixed application used here calls Header::get_header_list like the documented example"],
        if tier == Tier::Quick { 900 } else { 14400 },
    )
}

#[derive(Clone, Debug, Serialize, Deserialize)]
pub struct Case { pub server: ServerCase, pub cors_restricted: bool }

pub fn set_cors(restricted: bool) {
    if restricted {
        std::env::set_var("RWS_CONFIG_CORS_ALLOW_ALL", "false");
        std::env::set_var("RWS_CONFIG_CORS_ALLOW_ORIGINS", "https://foo.example,https://bar.example");
        std::env::set_var("RWS_CONFIG_CORS_ALLOW_METHODS", "GET,POST");
        std::env::set_var("RWS_CONFIG_CORS_ALLOW_HEADERS", "content-type,x-custom");
        std::env::set_var("RWS_CONFIG_CORS_ALLOW_CREDENTIALS", "true");
        std::env::set_var("RWS_CONFIG_CORS_EXPOSE_HEADERS", "content-type");
        std::env::set_var("RWS_CONFIG_CORS_MAX_AGE", "100");
    } else {
        std::env::set_var("RWS_CONFIG_CORS_ALLOW_ALL", "true");
    }
}

pub fn eval(ctx: &Ctx, c: &Case) -> Verdict {
    set_cors(c.cors_restricted);
    let e = examine(&c.server);
    let mut problems: Vec<(String, String)> = vec![];
    let mut classes: Vec<&'static str> = vec![];
    let mut nontrivial = false;
    if c.cors_restricted { classes.push("cors-restricted") } else { classes.push("cors-allow-all") }
    if c.server.legacy { classes.push("legacy-entry"); }
    match (&e.out.result, &e.resp) {
        (Err(_), _) => classes.push("panicked-(reported-under-C04)"),
        (_, Err(_)) => classes.push("unparseable-response-(reported-under-C04/C05)"),
        (Ok(_), Ok(r)) => {
            let mut want = |name: &str, ok: &dyn Fn(&str) -> bool, what: &str| {
                let all = r.get_all(name);
                let slug = name.to_lowercase();
                if all.is_empty() { problems.push((format!("missing:{}", slug), format!("status {} response lacks {}; {}", r.status, name, describe(&e)))); }
                else if all.len() > 1 { problems.push((format!("twice:{}", slug), format!("{} appears {} times: {:?}; {}", name, all.len(), all, describe(&e)))); }
                else if !ok(all[0]) { problems.push((format!("wrong-value:{}", slug), format!("{}: {:?} ({}); {}", name, all[0], what, describe(&e)))); }
            };
            want("X-Content-Type-Options", &|v| v == "nosniff", "must be nosniff");
            want("X-Frame-Options", &|v| v == "SAMEORIGIN", "must be SAMEORIGIN");
            want("Cache-Control", &|v| { let d: Vec<String> = v.split(',').map(|x| x.trim().to_lowercase()).collect(); d.iter().any(|x| x == "no-store") && d.iter().any(|x| x == "no-cache") }, "must contain no-store and no-cache");
            want("Accept-Ranges", &|v| v == "bytes", "must be bytes");
            want("Accept-CH", &|v| !v.trim().is_empty(), "must advertise client hints");
            want("Vary", &|v| v.split(',').any(|m| m.trim().eq_ignore_ascii_case("Origin")), "must name Origin");
            classes.push(match r.status { 200 => "status-200", 204 => "status-204", 206 => "status-206", 400 => "status-400", 403 => "status-403", 404 => "status-404", 416 => "status-416", 500 => "status-500", _ => "status-other" });
            nontrivial = r.status != 200 || hostile(&c.server);
            if let LineClass::MustReject(_) = e.line { classes.push("unparseable-input"); }
        }
    }
    ctx.judge(problems, nontrivial, classes)
}

pub fn run(ctx: &Ctx) {
    crate::fw::inproc::init_env();
    let _tree = match fixed_docroot() { Ok(t) => t, Err(e) => { ctx.inconclusive(&format!("docroot: {}", e)); return; } };
    // the binary runs with the default (allow-all) CORS configuration: only such cases are sent to it
    let strat = (server_case_strategy(true), any::<bool>()).prop_map(|(mut server, cors_restricted)| { if cors_restricted { server.binary = false; } Case { server, cors_restricted } });
    super::common::binary_begin(ctx, &_tree.root);
    ctx.prop("responses", ctx.share(ctx.scale(40_000, 3_000_000)), strat, |c| eval(ctx, c));
    super::common::binary_end(ctx);
    std::env::set_current_dir("/").ok();
}

pub fn replay(ctx: &Ctx, _section: &str, case: &Value) -> Verdict {
    crate::fw::inproc::init_env();
    let _tree = match fixed_docroot() { Ok(t) => t, Err(e) => return Verdict::fail("replay-docroot-failed", e.to_string()) };
    if super::common::replay_wants_binary(case) { super::common::binary_begin(ctx, &_tree.root); }
    match serde_json::from_value::<Case>(case.clone()) { Ok(c) => eval(ctx, &c), Err(e) => Verdict::fail("replay-unreadable", e.to_string()) }
}
