//! C10 — every response carries the hardening and no-cache headers, each exactly once.
use super::common::*;
use crate::fw::greq::LineClass;
use crate::fw::{Ctx, RunSpec, Tier, Verdict};
use proptest::prelude::*;
use serde::{Deserialize, Serialize};
use serde_json::Value;

pub fn spec(tier: Tier) -> RunSpec {
    let mut s = spec0(tier);
    // Server::process on a mock transport (whose read reports end of stream) returns within microseconds; a call that has not
    // returned after 60 s never will - the worker that runs it would be lost for good
    s.case_limit_s = 60;
    s.hang_is_violation = true;
    s
}

fn spec0(tier: Tier) -> RunSpec {
    super::base_spec(
        8,
        "the C04 input space (G-REQ with mutations, three buffer sizes, three application kinds) on both entry points and in both CORS modes (allow-all on; allow-all off with a configured origin list). \
Oracle on the M-HTTP header multiset of every response: exactly once each X-Content-Type-Options: nosniff, X-Frame-Options: SAMEORIGIN, Cache-Control containing no-store and no-cache, Accept-Ranges: bytes, \
a non-empty Accept-CH, and Vary whose comma-separated members include Origin. A quarter of the production-entry cases with the default buffer and the real application are sent to the release binary over loopback instead of Server::process on the mock transport (same oracle; a server-side panic shows as a connection closed without response bytes). Section cold-start-burst: a fresh server receives its first 4..48 requests simultaneously and three more one after the other; every response must satisfy the same invariant (lazily initialised state is set up under concurrency). Non-trivial = status != 200 or response to a mutated/hostile request; distinct by case. Crashed requests are C04's.",
        &["a response produced by a custom Application that builds its own header list is outside the statement; the Fixed application used here calls Header::get_header_list like the documented example"],
        if tier == Tier::Quick { 900 } else { 14400 },
    )
}

#[derive(Clone, Debug, Serialize, Deserialize)]
pub struct Case { pub server: ServerCase, pub cors_restricted: bool }

pub fn set_cors(restricted: bool) {
    if restricted {
        std::env::set_var("RWS_CONFIG_CORS_ALLOW_ALL", "false");
        std::env::set_var("RWS_CONFIG_CORS_ALLOW_ORIGINS", "https://foo.example,https://bar.example");
        std::env::set_var("RWS_CONFIG_CORS_ALLOW_METHODS", "GET,POST");
        std::env::set_var("RWS_CONFIG_CORS_ALLOW_HEADERS", "content-type,x-custom");
        std::env::set_var("RWS_CONFIG_CORS_ALLOW_CREDENTIALS", "true");
        std::env::set_var("RWS_CONFIG_CORS_EXPOSE_HEADERS", "content-type");
        std::env::set_var("RWS_CONFIG_CORS_MAX_AGE", "100");
    } else {
        std::env::set_var("RWS_CONFIG_CORS_ALLOW_ALL", "true");
    }
}

/// The header multiset invariant of C10 on one parsed response.
pub fn header_problems(r: &crate::fw::mhttp::Resp, context: &str) -> Vec<(String, String)> {
    let mut problems: Vec<(String, String)> = vec![];
    let mut want = |name: &str, ok: &dyn Fn(&str) -> bool, what: &str| {
        let all = r.get_all(name);
        let slug = name.to_lowercase();
        if all.is_empty() { problems.push((format!("missing:{}", slug), format!("status {} response lacks {}; {}", r.status, name, context))); }
        else if all.len() > 1 { problems.push((format!("twice:{}", slug), format!("{} appears {} times: {:?}; {}", name, all.len(), all, context))); }
        else if !ok(all[0]) { problems.push((format!("wrong-value:{}", slug), format!("{}: {:?} ({}); {}", name, all[0], what, context))); }
    };
    want("X-Content-Type-Options", &|v| v == "nosniff", "must be nosniff");
    want("X-Frame-Options", &|v| v == "SAMEORIGIN", "must be SAMEORIGIN");
    want("Cache-Control", &|v| { let d: Vec<String> = v.split(',').map(|x| x.trim().to_lowercase()).collect(); d.iter().any(|x| x == "no-store") && d.iter().any(|x| x == "no-cache") }, "must contain no-store and no-cache");
    want("Accept-Ranges", &|v| v == "bytes", "must be bytes");
    want("Accept-CH", &|v| !v.trim().is_empty(), "must advertise client hints");
    want("Vary", &|v| v.split(',').any(|m| m.trim().eq_ignore_ascii_case("Origin")), "must name Origin");
    problems
}

/// A server nobody has talked to yet receives its first requests all at once, then a few one after the other: whatever the server sets up lazily on
/// first use (caches of header lists, one-time initialisation) is then set up under concurrency, and every response - then and afterwards - must
/// still carry each header exactly once.
#[derive(Clone, Debug, Serialize, Deserialize)]
pub struct BurstCase { pub workers: u8, pub burst: u8, pub targets: Vec<u8> }

const BURST_TARGETS: [&str; 8] = ["/", "/a.txt", "/missing", "/sub/", "/page", "/style.css", "/form-get-method?a=b", "/big.bin"];

pub fn eval_burst(ctx: &Ctx, root: &std::path::Path, c: &BurstCase) -> Verdict {
    use std::io::Write;
    let srv = match crate::fw::net::Server::start(&crate::fw::net::ServerOpts::new(root, c.workers.max(1) as u32)) { Ok(s) => s, Err(e) => { ctx.inconclusive(&format!("server start: {}", e)); return Verdict::Discard; } };
    let n = c.burst.max(2) as usize;
    let limit = std::time::Duration::from_secs(10);
    if c.burst % 3 == 2 {
        // shape C: a fresh harness process handles the first requests on threads released by one barrier (Server::process on the mock transport):
        // the tightest start this harness can give; the process has served nothing before
        drop(srv);
        let exe = match std::env::current_exe() { Ok(e) => e, Err(_) => return Verdict::Discard };
        let mut cmd = std::process::Command::new(exe);
        cmd.arg("cold-burst").arg(root).arg(n.min(32).to_string());
        for i in 0..c.targets.len().max(1) { let t = BURST_TARGETS[c.targets.get(i).copied().unwrap_or(0) as usize % BURST_TARGETS.len()]; cmd.arg(crate::fw::util::escape_bytes(format!("GET {} HTTP/1.1\r\nHost: localhost\r\nOrigin: https://o.example\r\n\r\n", t).as_bytes())); }
        let out = match cmd.stderr(std::process::Stdio::null()).output() { Ok(o) => o, Err(_) => return Verdict::Discard };
        let mut problems = vec![];
        for line in String::from_utf8_lossy(&out.stdout).lines() {
            let bytes = crate::fw::util::unescape_bytes(line);
            if let Ok(r) = crate::fw::mhttp::parse(&bytes) { problems.extend(header_problems(&r, &format!("first requests of a fresh process, {} threads released together (in-process)", n.min(32)))); }
            if !problems.is_empty() { break; }
        }
        return ctx.judge(problems, true, vec!["cold-start-burst", "cold-start-in-process"]);
    }
    let mut srv = srv;
    let request_for = |i: usize| -> Vec<u8> { let t = BURST_TARGETS[c.targets.get(i % c.targets.len().max(1)).copied().unwrap_or(0) as usize % BURST_TARGETS.len()]; format!("GET {} HTTP/1.1\r\nHost: localhost\r\nOrigin: https://o.example\r\n\r\n", t).into_bytes() };
    let mut conns = vec![];
    if c.burst % 2 == 0 {
        // shape A: the requests are written into the listen backlog of the stopped server: when it continues it accepts and dispatches them back to back
        srv.sigstop();
        for i in 0..n { if let Ok(mut s) = srv.connect() { let _ = s.write_all(&request_for(i)); conns.push(s); } }
        srv.sigcont();
    } else {
        // shape B: as many connections as there are workers are opened first and left silent until every worker is blocked reading one of them;
        // then the requests are written in one go, so the workers start handling their first request within microseconds of one another
        let m = n.min(c.workers.max(1) as usize);
        for _ in 0..m { if let Ok(s) = srv.connect() { conns.push(s); } }
        std::thread::sleep(std::time::Duration::from_millis(30));
        let reqs: Vec<Vec<u8>> = (0..conns.len()).map(request_for).collect();
        for (s, r) in conns.iter_mut().zip(reqs.iter()) { let _ = s.write_all(r); }
    }
    let mut outs: Vec<(String, Vec<u8>)> = conns.into_iter().map(|mut s| ("first requests, simultaneous".to_string(), crate::fw::net::read_all(&mut s, limit).bytes)).collect();
    for t in ["/", "/a.txt", "/missing"] { outs.push(("after the burst, alone".to_string(), srv.roundtrip(format!("GET {} HTTP/1.1\r\nHost: localhost\r\n\r\n", t).as_bytes(), limit).bytes)); }
    let mut problems = vec![];
    for (phase, out) in outs.iter() {
        match crate::fw::mhttp::parse(out) {
            Ok(r) => problems.extend(header_problems(&r, &format!("{} on a fresh {}-worker server (burst of {})", phase, c.workers, n))),
            Err(_) => { if out.is_empty() { ctx.note("burst-connection-without-response"); } }
        }
        if !problems.is_empty() { break; }
    }
    ctx.judge(problems, true, vec!["cold-start-burst"])
}

pub fn eval(ctx: &Ctx, c: &Case) -> Verdict {
    set_cors(c.cors_restricted);
    let e = examine(&c.server);
    let mut problems: Vec<(String, String)> = vec![];
    let mut classes: Vec<&'static str> = vec![];
    let mut nontrivial = false;
    if c.cors_restricted { classes.push("cors-restricted") } else { classes.push("cors-allow-all") }
    if c.server.legacy { classes.push("legacy-entry"); }
    match (&e.out.result, &e.resp) {
        (Err(_), _) => classes.push("panicked-(reported-under-C04)"),
        (_, Err(_)) => classes.push("unparseable-response-(reported-under-C04/C05)"),
        (Ok(_), Ok(r)) => {
            problems.extend(header_problems(r, &describe(&e)));
            classes.push(match r.status { 200 => "status-200", 204 => "status-204", 206 => "status-206", 400 => "status-400", 403 => "status-403", 404 => "status-404", 416 => "status-416", 500 => "status-500", _ => "status-other" });
            nontrivial = r.status != 200 || hostile(&c.server);
            if let LineClass::MustReject(_) = e.line { classes.push("unparseable-input"); }
        }
    }
    ctx.judge(problems, nontrivial, classes)
}

pub fn run(ctx: &Ctx) {
    crate::fw::inproc::init_env();
    let _tree = match fixed_docroot() { Ok(t) => t, Err(e) => { ctx.inconclusive(&format!("docroot: {}", e)); return; } };
    // the binary runs with the default (allow-all) CORS configuration: only such cases are sent to it
    let strat = (server_case_strategy(true), any::<bool>()).prop_map(|(mut server, cors_restricted)| { if cors_restricted { server.binary = false; } Case { server, cors_restricted } });
    super::common::binary_begin(ctx, &_tree.root);
    ctx.prop("responses", ctx.share(ctx.scale(40_000, 3_000_000)), strat, |c| eval(ctx, c));
    super::common::binary_end(ctx);
    let root = _tree.root.clone();
    let bs = (prop::sample::select(vec![2u8, 4, 8, 16]), 4u8..48, proptest::collection::vec(0u8..8, 1..6)).prop_map(|(workers, burst, targets)| BurstCase { workers, burst, targets });
    ctx.prop("cold-start-burst", ctx.share(ctx.scale(320, 8000)), bs, |c| eval_burst(ctx, &root, c));
    std::env::set_current_dir("/").ok();
}

pub fn replay(ctx: &Ctx, _section: &str, case: &Value) -> Verdict {
    crate::fw::inproc::init_env();
    let _tree = match fixed_docroot() { Ok(t) => t, Err(e) => return Verdict::fail("replay-docroot-failed", e.to_string()) };
    if super::common::replay_wants_binary(case) { super::common::binary_begin(ctx, &_tree.root); }
    if _section == "cold-start-burst" { return match serde_json::from_value::<BurstCase>(case.clone()) { Ok(c) => eval_burst(ctx, &_tree.root, &c), Err(e) => Verdict::fail("replay-unreadable", e.to_string()) }; }
    match serde_json::from_value::<Case>(case.clone()) { Ok(c) => eval(ctx, &c), Err(e) => Verdict::fail("replay-unreadable", e.to_string()) }
}
