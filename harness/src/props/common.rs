//! Shared pieces of the server-level campaigns (C04, C05, C10, C13 ...).
use crate::fw::greq::{classify_request_line, fixed_tree, LineClass, ReqCase};
use crate::fw::inproc::{self, AppKind, Entry, ServeOut};
use crate::fw::mhttp::{self, Resp};
use crate::fw::mock::Transport;
use crate::fw::tree::Tree;
use serde::{Deserialize, Serialize};

pub const BUFSIZES: [i64; 6] = [10000, 10000, 10000, 10000, 256, 100000];

#[derive(Clone, Debug, Serialize, Deserialize)]
pub struct ServerCase { pub req: ReqCase, pub buf: u8, pub app: AppKind, pub legacy: bool,
    /// sent to the real binary over loopback when the check has one running on this thread (default buffer, real application, production entry)
    #[serde(default)] pub binary: bool }

pub struct Exam {
    pub bytes: Vec<u8>,
    pub bufsize: usize,
    pub line: LineClass,
    pub out: ServeOut,
    pub resp: Result<Resp, mhttp::Problem>,
    /// Some(true): request method was HEAD/OPTIONS by the pre-parser; None: undetermined (odd request line)
    pub no_body_by_method: Option<bool>,
}

pub fn panic_module(loc: &str) -> String {
    // "/repo/src/app/controller/static_resource/mod.rs:55" -> "app/controller/static_resource"; registry crates -> crate name
    let file = loc.rsplit_once(':').map(|(f, _)| f).unwrap_or(loc);
    if let Some(p) = file.rfind("/src/") {
        let before = &file[..p];
        let after = &file[p + 5..];
        if before.contains(".cargo/registry") || before.contains("/rustc/") || before.contains("/library/") {
            let krate = before.rsplit('/').next().unwrap_or("dep");
            let name: String = krate.trim_end_matches(|c: char| c.is_ascii_digit() || c == '.' || c == '-').to_string();
            return format!("dep:{}", if name.is_empty() { krate.to_string() } else { name });
        }
        return after.trim_end_matches(".rs").trim_end_matches("/mod").to_string();
    }
    if file.contains("/library/") || file.contains("/rustc/") { return "std".into(); }
    file.to_string()
}

pub fn fixed_docroot() -> std::io::Result<Tree> {
    let t = Tree::materialise(&fixed_tree(), &crate::fw::scratch_base())?;
    std::env::set_current_dir(&t.root)?;
    Ok(t)
}

pub fn examine_bytes(bytes: Vec<u8>, bufsize: usize, app: AppKind, legacy: bool, transport: Transport) -> Exam {
    let seen_len = bytes.len().min(bufsize);
    let line = classify_request_line(&bytes[..seen_len]);
    let entry = if legacy { Entry::Legacy } else { Entry::Process };
    if legacy { std::env::set_var("RWS_CONFIG_REQUEST_ALLOCATION_SIZE_IN_BYTES", bufsize.to_string()); }
    let out = inproc::serve(&bytes, transport, bufsize as i64, app, entry);
    let resp = mhttp::parse(&out.out);
    let no_body_by_method = match &line {
        LineClass::Valid { method, .. } => Some(method == "HEAD" || method == "OPTIONS"),
        LineClass::MustReject(_) => Some(false),
        LineClass::Unspecified { method_guess } => if method_guess == "HEAD" || method_guess == "OPTIONS" { None } else { Some(false) },
    };
    Exam { bytes, bufsize, line, out, resp, no_body_by_method }
}

pub fn examine(c: &ServerCase) -> Exam {
    let bufsize = BUFSIZES[c.buf as usize % BUFSIZES.len()] as usize;
    let bytes = c.req.render(bufsize);
    if via_binary(c) {
        let answer = match inproc::serve_binary_checked(&bytes) {
            inproc::BinaryAnswer::Served(o) => Some(o),
            // the server said nothing, twice, while the connection stayed open: judged as what it is - a connection that was not answered
            // (requests whose bytes end without a blank line are complete as far as the client is concerned: nothing more will come)
            inproc::BinaryAnswer::Silent => Some(ServeOut { out: vec![], result: Ok(Ok(())), write_calls: 0, flush_calls: 0 }),
            inproc::BinaryAnswer::Unavailable => None,
        };
        if let Some(out) = answer {
            let line = classify_request_line(&bytes[..bytes.len().min(bufsize)]);
            let resp = mhttp::parse(&out.out);
            let no_body_by_method = match &line {
                LineClass::Valid { method, .. } => Some(method == "HEAD" || method == "OPTIONS"),
                LineClass::MustReject(_) => Some(false),
                LineClass::Unspecified { method_guess } => if method_guess == "HEAD" || method_guess == "OPTIONS" { None } else { Some(false) },
            };
            return Exam { bytes, bufsize, line, out, resp, no_body_by_method };
        }
    }
    examine_bytes(bytes, bufsize, c.app, c.legacy, Transport::default())
}

/// the binary serves with the default 10000-byte buffer and the real application
pub fn via_binary(c: &ServerCase) -> bool { c.binary && !c.legacy && c.app == AppKind::Real && BUFSIZES[c.buf as usize % BUFSIZES.len()] == 10000 }

pub fn replay_wants_binary(case: &serde_json::Value) -> bool {
    case.get("binary").and_then(|b| b.as_bool()).unwrap_or(false) || case.get("server").and_then(|s| s.get("binary")).and_then(|b| b.as_bool()).unwrap_or(false)
}

/// Starts the release binary on the fixed docroot for this thread's `binary` cases; reports trouble as inconclusive at the end (`binary_end`).
pub fn binary_begin(ctx: &crate::fw::Ctx, root: &std::path::Path) { if let Err(e) = inproc::binary_start(root) { ctx.inconclusive(&format!("real binary did not start: {}", e)); } }
pub fn binary_end(ctx: &crate::fw::Ctx) { inproc::binary_stop(); for t in inproc::binary_trouble() { ctx.inconclusive(&format!("exchange with the real binary did not complete: {}", t)); } }

pub fn server_case_strategy(with_legacy: bool) -> impl proptest::strategy::Strategy<Value = ServerCase> {
    use proptest::prelude::*;
    (crate::fw::greq::case_strategy(), 0u8..6, prop_oneof![8 => Just(AppKind::Real), 1 => Just(AppKind::ReturnsErr), 1 => Just(AppKind::Fixed)], proptest::bool::weighted(if with_legacy { 0.25 } else { 0.0 }), proptest::bool::weighted(0.25))
        .prop_map(|(req, buf, app, legacy, binary)| ServerCase { req, buf, app: if legacy { AppKind::Real } else { app }, legacy, binary })
}

pub fn describe(e: &Exam) -> String {
    format!("request[{} bytes, buffer {}]: {} -> {}", e.bytes.len(), e.bufsize, crate::fw::util::lossy(&e.bytes, 160),
        match &e.resp { Ok(r) => format!("status {} ({} body bytes)", r.status, r.body.len()), Err(p) => format!("unparseable response: {}", p.sig) })
}

pub fn hostile(c: &ServerCase) -> bool {
    !c.req.muts.is_empty() || c.app != AppKind::Real
        || c.req.base.headers.iter().any(|(n, v)| ["range", "content-length", "origin", "content-type"].contains(&n.to_lowercase().as_str()) || v.0.iter().any(|b| *b < 0x20 || *b >= 0x7f))
        || !c.req.base.target.starts_with('/') || !c.req.base.body.0.is_empty()
}
