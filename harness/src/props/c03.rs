//! C03 — byte-range requests return exactly the requested bytes.
use crate::fw::inproc::{self, AppKind, Entry};
use crate::fw::mock::Transport;
use crate::fw::{mhttp, Ctx, RunSpec, Tier, Verdict};
use proptest::prelude::*;
use serde::{Deserialize, Serialize};
use serde_json::Value;

pub fn spec(tier: Tier) -> RunSpec {
    super::base_spec(
        8,
        "files of length L in {0,1,2,3,10,4095..4097,8191..8193,9999..10001,65535..65537} (thorough adds 1 MiB +-1) with position-dependent content (a wrong offset is always visible), reached directly, \
through a directory index and through the .html fallback, x Range values 'bytes=' + 1..6 specs (a-b, a-, -n) joined by ',' with optional blanks, every offset drawn from {0,1,L-2,L-1,L,L+1,2^63,u64::MAX,u64::MAX+1,20-digit junk, non-numeric, empty, random inside}, \
plus malformed shapes (a-b-c, wrong unit, missing '=', '+5', blanks around '-'). Oracle M-RANGE (the harness parses the header per RFC 7233 itself): all specs valid and inside the file -> 206, per range in request order exactly file[a..=b], \
Content-Range 'bytes a-b/L', single range Content-Length = b-a+1, several ranges one multipart/byteranges body; otherwise 416 or a 206 whose every part is self-consistent (label s-e/L with s<=e and bytes == file[s..=min(e,L-1)]) and, when every spec names its offsets in digits of whatever length, lies inside what one of the specs asked for (read with arbitrary precision: an offset of 2^64 is not offset 0). \
8 % of the cases rewrite the file in place (same length, other content) after it has been served once: the bytes must be those of the file as it is when the ranged request arrives. Section ranges-binary: the same generator against the real release binary serving the same docroot over loopback (a quarter of the in-process volume). Non-trivial = an offset within 1 of 0 or L, a suffix or open-ended spec, >= 2 specs, or an overflow candidate; distinct by (L, path kind, header).",
        &["'valid' follows RFC 7233 ABNF: unit 'bytes', digits only, no blanks inside a spec; everything else is in the tolerant class"],
        if tier == Tier::Quick { 900 } else { 14400 },
    )
}

pub const LENGTHS: [u64; 17] = [0, 1, 2, 3, 10, 4095, 4096, 4097, 8191, 8192, 8193, 9999, 10000, 10001, 65535, 65536, 65537];
pub const LENGTHS_THOROUGH: [u64; 3] = [1048575, 1048576, 1048577];

pub fn byte_at(i: u64) -> u8 {
    // period far above 64 KiB; never yields long runs
    let x = i.wrapping_mul(0x9E37_79B9_7F4A_7C15).rotate_left(17) ^ (i >> 7);
    let b = (x >> 24) as u8;
    if b == b'-' { b'_' } else { b } // no dashes: the multipart delimiter can never occur in the data
}

pub fn file_content(len: u64) -> Vec<u8> { (0..len).map(byte_at).collect() }

#[derive(Clone, Debug, Serialize, Deserialize)]
pub struct Case { pub len: u64, pub via: u8, pub header_name: String, pub value: String,
    /// sent to the real binary over loopback instead of Server::process on the mock transport
    #[serde(default)] pub binary: bool,
    /// Some(k): the file has just been served once and then been rewritten in place with other content of the same length (k-th variant) when the
    /// ranged request arrives - "the bytes at those offsets" are those of the file as it is now; the original content is put back afterwards
    #[serde(default)] pub rewrite: Option<u8> }

/// k-th content variant of the same length: position-dependent like the original, different from it at (nearly) every offset
pub fn file_content_variant(len: u64, k: u8) -> Vec<u8> { (0..len).map(|i| byte_at(i + 7919 * (k as u64 + 1))).collect() }

fn disk_path(len: u64, via: u8) -> String { match via { 2 => format!("d{}/index.html", len), 3 => format!("h{}.html", len), _ => format!("f{}.bin", len) } }

fn offset(l: u64) -> impl Strategy<Value = String> {
    let l1 = l as u128;
    let fixed: Vec<String> = vec![0u128, 1, l1.saturating_sub(2), l1.saturating_sub(1), l1, l1 + 1].into_iter().map(|v| v.to_string()).collect();
    prop_oneof![
        10 => prop::sample::select(fixed),
        6 => (0..l.max(1)).prop_map(|v| v.to_string()),
        1 => prop::sample::select(vec!["9223372036854775807", "9223372036854775808", "18446744073709551615", "18446744073709551616", "99999999999999999999", "340282366920938463463374607431768211456"]).prop_map(|s| s.to_string()),
        1 => prop::sample::select(vec!["", "x", "1x", "-", "+5", " 5", "5 ", "0x10", "１", "1e2", "007"]).prop_map(|s| s.to_string()),
    ]
}

fn spec_strategy(l: u64) -> impl Strategy<Value = String> {
    prop_oneof![
        6 => (offset(l), offset(l)).prop_map(|(a, b)| format!("{}-{}", a, b)),
        // ordered pair inside the file (the class that must be served exactly)
        6 => (0..l.max(1), 0..l.max(1)).prop_map(|(a, b)| format!("{}-{}", a.min(b), a.max(b))),
        3 => offset(l).prop_map(|a| format!("{}-", a)),
        3 => offset(l).prop_map(|n| format!("-{}", n)),
        1 => (offset(l), offset(l), offset(l)).prop_map(|(a, b, c)| format!("{}-{}-{}", a, b, c)),
        1 => (offset(l), offset(l)).prop_map(|(a, b)| format!("{} - {}", a, b)),
    ]
}

fn case_strategy(lengths: Vec<u64>) -> impl Strategy<Value = Case> {
    (case_strategy0(lengths), proptest::option::weighted(0.08, 0u8..4)).prop_map(|(mut c, rewrite)| { c.rewrite = rewrite; c })
}

fn case_strategy0(lengths: Vec<u64>) -> impl Strategy<Value = Case> {
    prop::sample::select(lengths).prop_flat_map(|l| {
        let specs = prop_oneof![5 => proptest::collection::vec(spec_strategy(l), 1..=1), 4 => proptest::collection::vec(spec_strategy(l), 2..=6)];
        let sep = prop::sample::select(vec![",", ", ", " ,", " , ", ",\t"]);
        let unit = prop_oneof![12 => Just("bytes="), 1 => prop::sample::select(vec!["bytes =", "byte=", "", "bytes", "BYTES=", "bytes==", "items=", "bytes= "])];
        (Just(l), 0u8..4, prop::sample::select(vec!["Range", "Range", "Range", "range", "RANGE"]), specs, sep, unit)
            .prop_map(|(len, via, h, specs, sep, unit)| Case { len, via, header_name: h.to_string(), value: format!("{}{}", unit, specs.join(sep)), binary: false, rewrite: None })
    })
}

/// Path of the file of length `len` for the access kind `via` (0,1: direct; 2: directory index; 3: .html fallback).
pub fn path_for(len: u64, via: u8) -> String {
    match via { 2 => format!("/d{}", len), 3 => format!("/h{}", len), _ => format!("/f{}.bin", len) }
}

pub fn build_docroot(lengths: &[u64]) -> std::io::Result<std::path::PathBuf> {
    let root = crate::fw::scratch_base().join(format!("rwsv-c03-{}", std::process::id()));
    let _ = std::fs::remove_dir_all(&root);
    std::fs::create_dir_all(&root)?;
    for &l in lengths {
        let c = file_content(l);
        std::fs::write(root.join(format!("f{}.bin", l)), &c)?;
        std::fs::create_dir_all(root.join(format!("d{}", l)))?;
        std::fs::write(root.join(format!("d{}", l)).join("index.html"), &c)?;
        std::fs::write(root.join(format!("h{}.html", l)), &c)?;
    }
    std::env::set_current_dir(&root)?;
    Ok(root)
}

#[derive(Debug, Clone, PartialEq)]
enum Spec { Closed(u64, u64), Open(u64), Suffix(u64) }

/// RFC 7233 byte-ranges-specifier; None = malformed.
fn parse_rfc(value: &str) -> Option<Vec<Spec>> {
    let rest = value.strip_prefix("bytes=")?;
    let mut out = vec![];
    for el in rest.split(',') {
        let el = el.trim_matches(|c| c == ' ' || c == '\t');
        if el.is_empty() { return None; }
        let (a, b) = el.split_once('-')?;
        let digits = |s: &str| !s.is_empty() && s.bytes().all(|c| c.is_ascii_digit());
        if a.is_empty() { if !digits(b) { return None; } out.push(Spec::Suffix(b.parse().ok()?)); }
        else if b.is_empty() { if !digits(a) { return None; } out.push(Spec::Open(a.parse().ok()?)); }
        else { if !digits(a) || !digits(b) { return None; } out.push(Spec::Closed(a.parse().ok()?, b.parse().ok()?)); }
    }
    Some(out)
}

/// What each spec of a Range value asks for, as closed spans of offsets, read with arbitrary precision (digit strings longer than a u128 count as
/// u128::MAX). None: wrong unit, or some spec is not of the shapes digits-digits / digits- / -digits (blanks around the pieces are ignored).
fn requested_spans(value: &str, l: u64) -> Option<Vec<(u128, u128)>> {
    let rest = value.strip_prefix("bytes=")?;
    let num = |t: &str| -> Option<u128> { let t = t.trim_matches(|c| c == ' ' || c == '\t'); if t.is_empty() || !t.bytes().all(|b| b.is_ascii_digit()) { return None; } Some(t.trim_start_matches('0').parse::<u128>().unwrap_or(if t.trim_start_matches('0').is_empty() { 0 } else { u128::MAX })) };
    let mut out = vec![];
    for spec in rest.split(',') {
        let spec = spec.trim_matches(|c| c == ' ' || c == '\t');
        let (a, b) = spec.split_once('-')?;
        let (a_blank, b_blank) = (a.trim_matches(|c| c == ' ' || c == '\t').is_empty(), b.trim_matches(|c| c == ' ' || c == '\t').is_empty());
        if a_blank && b_blank { return None; }
        if a_blank { let n = num(b)?; let n = n.min(l as u128); if n == 0 || l == 0 { out.push((1, 0)); } else { out.push((l as u128 - n, l as u128 - 1)); } }
        else if b_blank { out.push((num(a)?, u128::MAX)); }
        else { out.push((num(a)?, num(b)?)); }
    }
    Some(out)
}

pub fn eval(ctx: &Ctx, c: &Case) -> Verdict {
    let k = match c.rewrite { Some(k) if c.len > 0 => k, _ => return eval_with(ctx, c, file_content(c.len)) };
    // served once with the original content (ranged and whole), then rewritten in place: same path, same length, typically the same second
    let path = path_for(c.len, c.via);
    for warm in [format!("GET {} HTTP/1.1\r\nHost: localhost\r\n{}: {}\r\n\r\n", path, c.header_name, c.value), format!("GET {} HTTP/1.1\r\nHost: localhost\r\n\r\n", path)] { let _ = inproc::serve_routed(warm.as_bytes(), c.binary, Entry::Process); }
    let now = file_content_variant(c.len, k);
    if std::fs::write(disk_path(c.len, c.via), &now).is_err() { ctx.inconclusive("rewriting a docroot file failed"); return Verdict::Discard; }
    let v = eval_with(ctx, c, now);
    if std::fs::write(disk_path(c.len, c.via), file_content(c.len)).is_err() { ctx.inconclusive("restoring a docroot file failed"); }
    v
}

fn eval_with(ctx: &Ctx, c: &Case, file: Vec<u8>) -> Verdict {
    let l = c.len;
    let path = path_for(l, c.via);
    let req = format!("GET {} HTTP/1.1\r\nHost: localhost\r\n{}: {}\r\n\r\n", path, c.header_name, c.value);
    let o = inproc::serve_routed(req.as_bytes(), c.binary, Entry::Process);
    let mut problems: Vec<(String, String)> = vec![];
    let mut classes: Vec<&'static str> = vec![];
    if c.binary { classes.push("served-by-the-real-binary"); }
    if c.rewrite.is_some() && l > 0 { classes.push("file-rewritten-in-place-since-it-was-last-served"); }
    let ctxt = format!("L={} GET {} {}: {}", l, path, c.header_name, c.value);
    if let Err((m, loc)) = &o.result { return Verdict::fail(format!("panic:{}:{}", super::common::panic_module(loc), m), format!("panic at {}; {}", loc, ctxt)); }
    let resp = match mhttp::parse(&o.out) { Ok(r) => r, Err(p) => return Verdict::fail(format!("unparseable-response:{}", p.sig), ctxt) };
    // expected
    let parsed = parse_rfc(&c.value);
    let inside: Option<Vec<(u64, u64)>> = parsed.as_ref().and_then(|specs| specs.iter().map(|s| match s {
        Spec::Closed(a, b) => if a <= b && l > 0 && *b <= l - 1 { Some((*a, *b)) } else { None },
        Spec::Open(a) => if l > 0 && *a <= l - 1 { Some((*a, l - 1)) } else { None },
        Spec::Suffix(n) => if *n >= 1 && *n <= l { Some((l - n, l - 1)) } else { None },
    }).collect());
    // what was served
    let mut served: Vec<(String, Vec<u8>)> = vec![]; // (content-range value, bytes)
    if resp.status == 206 {
        let ct = resp.get("Content-Type").unwrap_or("").to_string();
        if ct.starts_with("multipart/byteranges") {
            match mhttp::split_byteranges(&ct, &resp.body) {
                Ok(parts) => for p in parts { served.push((p.content_range.unwrap_or_default(), p.body)); },
                Err(e) => { problems.push(("multipart-byteranges-body-malformed".into(), format!("{}; {}", e, ctxt))); }
            }
            // a multipart answer need not carry a Content-Length, but one that is there frames the body: a client that honours it must get all parts
            if let Some(cl) = resp.get("Content-Length") { if cl.parse::<usize>().ok() != Some(resp.body.len()) { problems.push(("content-length-differs-from-bytes-sent".into(), format!("multipart answer with Content-Length {:?} and {} body bytes; {}", cl, resp.body.len(), ctxt))); } }
        } else {
            served.push((resp.get("Content-Range").unwrap_or("").to_string(), resp.body.clone()));
            if resp.get("Content-Length").and_then(|v| v.parse::<usize>().ok()) != Some(resp.body.len()) { problems.push(("content-length-differs-from-bytes-sent".into(), format!("Content-Length {:?}, {} body bytes; {}", resp.get("Content-Length"), resp.body.len(), ctxt))); }
        }
    }
    match &inside {
        Some(ranges) => {
            classes.push("all-specs-valid-and-inside");
            if resp.status != 206 { problems.push((format!("satisfiable-range-answered-{}", resp.status), ctxt.clone())); }
            else if problems.is_empty() {
                if served.len() != ranges.len() { problems.push(("wrong-number-of-parts".into(), format!("{} part(s) served for {} range(s); {}", served.len(), ranges.len(), ctxt))); }
                else {
                    for (i, ((a, b), (label, bytes))) in ranges.iter().zip(served.iter()).enumerate() {
                        let want = &file[*a as usize..=*b as usize];
                        let lab = mhttp::parse_content_range(label);
                        if bytes.as_slice() != want {
                            problems.push(("wrong-bytes-for-range".into(), format!("part {}: expected file[{}..={}] ({} bytes), got {} bytes (label {:?}); {}", i, a, b, want.len(), bytes.len(), label, ctxt)));
                            break;
                        }
                        match lab {
                            None => { problems.push(("content-range-unparseable".into(), format!("part {} label {:?}; {}", i, label, ctxt))); break; }
                            Some((s, e, size)) => {
                                if s == *a && size == l && e == *b { continue; }
                                if s == *a && size == l && e == l && *b == l - 1 {
                                    // the one listed deviation: last-byte-pos == L where L-1 is expected; bytes, start and size are exact
                                    problems.push(("range-label-last-equals-size".into(), format!("part {}: Content-Range {:?} where bytes {}-{}/{} is expected; {}", i, label, a, b, l, ctxt)));
                                } else {
                                    problems.push(("wrong-content-range-label".into(), format!("part {}: Content-Range {:?} where bytes {}-{}/{} is expected; {}", i, label, a, b, l, ctxt)));
                                    break;
                                }
                            }
                        }
                    }
                }
            }
        }
        None => {
            classes.push(if parsed.is_none() { "malformed" } else { "reaches-outside" });
            match resp.status {
                416 => { classes.push("answered-416"); }
                206 => {
                    classes.push("answered-206-tolerated");
                    // "never with bytes from other offsets": when every spec of the header names its offsets in digits (of any length), each served
                    // slice has to lie inside what one of them asked for (arbitrary-precision reading; a spec of other shape leaves this undecided)
                    let spans = requested_spans(&c.value, l);
                    for (i, (label, bytes)) in served.iter().enumerate() {
                        match mhttp::parse_content_range(label) {
                            None => { problems.push(("content-range-unparseable".into(), format!("part {} label {:?}; {}", i, label, ctxt))); break; }
                            Some((s, e, size)) => {
                                let hi = if l == 0 { None } else { Some(e.min(l - 1)) };
                                let want: &[u8] = match hi { Some(h) if s <= h => &file[s as usize..=h as usize], _ => &[] };
                                if size != l || s > e || bytes.as_slice() != want {
                                    problems.push(("inconsistent-slice-for-unsatisfiable-range".into(), format!("part {}: label {:?} (file size {}), {} bytes served, {} bytes at those offsets; {}", i, label, l, bytes.len(), want.len(), ctxt)));
                                    break;
                                }
                                if let (Some(spans), Some(h)) = (&spans, hi) {
                                    if s <= h && !spans.iter().any(|(a, b)| (s as u128) >= *a && (h as u128) <= *b) {
                                        classes.push("slice-outside-every-requested-range");
                                        problems.push(("bytes-from-offsets-nobody-asked-for".into(), format!("part {}: label {:?} lies outside every requested range {:?}; {}", i, label, spans, ctxt)));
                                        break;
                                    }
                                }
                            }
                        }
                    }
                }
                s => problems.push((format!("unsatisfiable-or-malformed-range-answered-{}", s), ctxt.clone())),
            }
        }
    }
    let near = |v: u64| v <= 1 || (v.saturating_add(1) >= l && v <= l.saturating_add(1));
    let nontrivial = match &parsed {
        Some(specs) => specs.len() >= 2 || specs.iter().any(|s| match s { Spec::Closed(a, b) => near(*a) || near(*b) || *a > u32::MAX as u64 || *b > u32::MAX as u64, _ => true }),
        None => c.value.len() > 8,
    };
    if let Some(specs) = &parsed {
        if specs.len() >= 2 { classes.push("multi-range"); }
        if specs.iter().any(|s| matches!(s, Spec::Suffix(_))) { classes.push("suffix-spec"); }
        if specs.iter().any(|s| matches!(s, Spec::Open(_))) { classes.push("open-ended-spec"); }
        if specs.iter().any(|s| match s { Spec::Closed(a, b) => near(*a) || near(*b), Spec::Open(a) => near(*a), Spec::Suffix(n) => near(*n) }) { classes.push("offset-within-1-of-0-or-L"); }
    }
    if c.via >= 2 { classes.push(if c.via == 2 { "via-directory-index" } else { "via-html-fallback" }); }
    ctx.judge(problems, nontrivial, classes)
}

fn lengths(tier: Tier) -> Vec<u64> { let mut v = LENGTHS.to_vec(); if tier == Tier::Thorough { v.extend_from_slice(&LENGTHS_THOROUGH); } v }

pub fn run(ctx: &Ctx) {
    crate::fw::inproc::init_env();
    let ls = lengths(ctx.tier);
    let root = match build_docroot(&ls) { Ok(r) => r, Err(e) => { ctx.inconclusive(&format!("docroot: {}", e)); return; } };
    ctx.prop("ranges", ctx.share(ctx.scale(48_000, 3_000_000)), case_strategy(ls.clone()), |c| eval(ctx, c));
    // the same generator against the real binary (TcpStream, accept loop, pool) serving the same docroot
    match inproc::binary_start(&root) {
        Err(e) => ctx.inconclusive(&format!("real binary did not start: {}", e)),
        Ok(()) => {
            use proptest::prelude::*;
            ctx.prop("ranges-binary", ctx.share(ctx.scale(12_000, 400_000)), case_strategy(ls).prop_map(|mut c| { c.binary = true; c }), |c| eval(ctx, c));
            inproc::binary_stop();
            for t in inproc::binary_trouble() { ctx.inconclusive(&format!("exchange with the real binary did not complete: {}", t)); }
        }
    }
    let _ = std::env::set_current_dir("/");
    let _ = std::fs::remove_dir_all(root);
}

pub fn replay(ctx: &Ctx, _section: &str, case: &Value) -> Verdict {
    crate::fw::inproc::init_env();
    match serde_json::from_value::<Case>(case.clone()) {
        Ok(c) => { let root = match build_docroot(&[c.len]) { Ok(r) => r, Err(e) => return Verdict::fail("replay-docroot-failed", e.to_string()) }; if c.binary { if let Err(e) = inproc::binary_start(&root) { return Verdict::fail("replay-binary-did-not-start", e); } } let v = eval(ctx, &c); inproc::binary_stop(); let _ = std::env::set_current_dir("/"); let _ = std::fs::remove_dir_all(root); v }
        Err(e) => Verdict::fail("replay-unreadable", e.to_string()),
    }
}
