#![no_main]
#![allow(dead_code, unused_imports, unused_variables, unused_mut, unexpected_cfgs, unused_must_use, deprecated)]
include!("common.rs");
use libfuzzer_sys::fuzz_target;

// first byte: buffer size and application kind; rest: the bytes the client sends
fuzz_target!(|data: &[u8]| {
    if data.is_empty() { return; }
    with_ctx("C04", true, |ctx| {
        let sel = data[0];
        let bufsize = [10000usize, 10000, 256, 100000][(sel & 3) as usize];
        let app = match (sel >> 2) & 3 { 1 => fw::inproc::AppKind::ReturnsErr, 2 => fw::inproc::AppKind::Fixed, _ => fw::inproc::AppKind::Real };
        let v = props::c04::judge_bytes(ctx, &data[1..], bufsize, app);
        report(ctx, v);
    });
});
