#![no_main]
#![allow(dead_code, unused_imports, unused_variables, unused_mut, unexpected_cfgs, unused_must_use, deprecated)]
include!("common.rs");
use libfuzzer_sys::fuzz_target;

// first byte: entry point; second byte: auxiliary argument; rest: the input document
fuzz_target!(|data: &[u8]| {
    if data.len() < 2 { return; }
    with_ctx("C20", false, |ctx| {
        let entry = props::c20::entry_for_byte(data[0]);
        let auxs = props::c20::aux_for(entry);
        let aux = auxs[data[1] as usize % auxs.len()];
        let case = props::c20::Case { entry: entry.to_string(), input: props::c20::Input::Raw(fw::util::Bytes(data[2..].to_vec())), aux: aux.to_string() };
        let v = props::c20::eval(ctx, &case);
        report(ctx, v);
    });
});
