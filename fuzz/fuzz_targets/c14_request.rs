#![no_main]
#![allow(dead_code, unused_imports, unused_variables, unused_mut, unexpected_cfgs, unused_must_use, deprecated)]
include!("common.rs");
use libfuzzer_sys::fuzz_target;

// totality of Request::parse on any bytes; parse . generate idempotence on whatever parses into printable fields
fuzz_target!(|data: &[u8]| {
    with_ctx("C14", false, |ctx| { let v = props::c14::judge_bytes(ctx, data); report(ctx, v); });
});
