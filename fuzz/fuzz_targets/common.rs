// Shared prelude of the fuzz targets: the rws sources and the harness's framework + oracles are compiled into every target by path,
// so a fuzz target judges an input with exactly the oracle the proptest checks use.
include!(concat!(env!("OUT_DIR"), "/mods.rs"));
#[path = "../../harness/src/fw/mod.rs"]
pub mod fw;
#[path = "../../harness/src/props/mod.rs"]
pub mod props;

use std::sync::mpsc::{channel, Receiver, Sender};
use std::sync::{Mutex, OnceLock};

type Job = Box<dyn FnOnce(&fw::Ctx) + Send + 'static>;
static WORKER: OnceLock<Mutex<(Sender<Job>, Receiver<()>)>> = OnceLock::new();

/// Runs `f` on the target's worker thread and waits for it. rws code has an implicit precondition every real caller meets: it runs on a
/// *named* thread (pool workers are named "0".."N-1"; log/mod.rs unwraps the name) - libFuzzer's own thread is unnamed because the
/// process has no Rust `main`. The worker is created once (panic capture, scratch directory, docroot, environment) with the 2 MiB stack
/// the proptest checks use, so depth limits agree between the two engines.
pub fn with_ctx(property: &str, needs_docroot: bool, f: impl FnOnce(&fw::Ctx) + Send) {
    let w = WORKER.get_or_init(|| {
        let (jtx, jrx) = channel::<Job>();
        let (dtx, drx) = channel::<()>();
        let property = property.to_string();
        std::thread::Builder::new().name("0".into()).stack_size(2 << 20).spawn(move || {
            fw::install_panic_hook();
            let dir = fw::scratch_base().join(format!("rwsv-fuzz-{}", std::process::id()));
            let _ = std::fs::create_dir_all(&dir);
            let strict = std::env::var("RWSV_FUZZ_STRICT").is_ok();
            let ctx = fw::make_child_ctx(&property, fw::Tier::Quick, 0, 0, 1, &dir, strict);
            // rws prints a log line per request: campaigns run with libFuzzer's -close_fd_mask=3 (libFuzzer keeps its own copy of stderr)
            if needs_docroot {
                fw::inproc::init_env();
                let tree = props::common::fixed_docroot().expect("docroot");
                std::mem::forget(tree); // lives as long as the process; removed by the campaign driver
            }
            while let Ok(job) = jrx.recv() { job(&ctx); if dtx.send(()).is_err() { break; } }
        }).expect("worker thread");
        Mutex::new((jtx, drx))
    });
    let job: Box<dyn FnOnce(&fw::Ctx) + Send + '_> = Box::new(f);
    // the borrow is sound: this function does not return before the worker has finished (or died with) the job
    let job: Job = unsafe { std::mem::transmute(job) };
    let g = w.lock().unwrap();
    if g.0.send(job).is_err() || g.1.recv().is_err() { eprintln!("FUZZ-WORKER-DIED (a panic escaped the oracle)"); std::process::abort(); }
}

/// A failure that is not a listed known finding ends the process the libFuzzer way (abort), with the signature in the message.
pub fn report(ctx: &fw::Ctx, v: fw::Verdict) {
    if let fw::Verdict::Fail { sig, detail } = v {
        if !ctx.strict && ctx.known.is_known(&ctx.property, &sig) { return; }
        let line = format!("FUZZ-VIOLATION property={} sig={} {}\n", ctx.property, sig, detail);
        if let Ok(path) = std::env::var("RWSV_FUZZ_VIOLATION_LOG") { use std::io::Write; if let Ok(mut f) = std::fs::OpenOptions::new().create(true).append(true).open(path) { let _ = f.write_all(line.as_bytes()); } }
        eprint!("{}", line);
        std::process::abort();
    }
}
