// Shared prelude of the fuzz targets: the rws sources and the harness's framework + oracles are compiled into every target by path,
// so a fuzz target judges an input with exactly the oracle the proptest checks use.
include!(concat!(env!("OUT_DIR"), "/mods.rs"));
#[path = "../../harness/src/fw/mod.rs"]
pub mod fw;
#[path = "../../harness/src/props/mod.rs"]
pub mod props;

use std::cell::RefCell;

thread_local! {
    static CTX: RefCell<Option<fw::Ctx>> = RefCell::new(None);
}

/// One-time process set-up: panic capture, quiet stdout, docroot, environment. libFuzzer calls the target on one thread.
pub fn with_ctx<T>(property: &str, needs_docroot: bool, f: impl FnOnce(&fw::Ctx) -> T) -> T {
    CTX.with(|c| {
        if c.borrow().is_none() {
            fw::install_panic_hook();
            let dir = fw::scratch_base().join(format!("rwsv-fuzz-{}", std::process::id()));
            let _ = std::fs::create_dir_all(&dir);
            let strict = std::env::var("RWSV_FUZZ_STRICT").is_ok();
            let ctx = fw::make_child_ctx(property, fw::Tier::Quick, 0, 0, 1, &dir, strict);
            // rws prints a log line per request: campaigns run with libFuzzer's -close_fd_mask=3 (libFuzzer keeps its own copy of stderr)
            if needs_docroot {
                fw::inproc::init_env();
                let tree = props::common::fixed_docroot().expect("docroot");
                std::mem::forget(tree); // lives as long as the process; removed by the campaign driver
            }
            *c.borrow_mut() = Some(ctx);
        }
        f(c.borrow().as_ref().unwrap())
    })
}

/// A failure that is not a listed known finding ends the process the libFuzzer way (abort), with the signature in the message.
pub fn report(ctx: &fw::Ctx, v: fw::Verdict) {
    if let fw::Verdict::Fail { sig, detail } = v {
        if !ctx.strict && ctx.known.is_known(&ctx.property, &sig) { return; }
        let line = format!("FUZZ-VIOLATION property={} sig={} {}\n", ctx.property, sig, detail);
        if let Ok(path) = std::env::var("RWSV_FUZZ_VIOLATION_LOG") { use std::io::Write; if let Ok(mut f) = std::fs::OpenOptions::new().create(true).append(true).open(path) { let _ = f.write_all(line.as_bytes()); } }
        eprint!("{}", line);
        std::process::abort();
    }
}
