#![no_main]
#![allow(dead_code, unused_imports, unused_variables, unused_mut, unexpected_cfgs, unused_must_use, deprecated)]
include!("common.rs");
use libfuzzer_sys::fuzz_target;

// structure-aware: the bytes are decoded into (boundary, parts) and judged by the round-trip oracle of the C16 check
fuzz_target!(|data: &[u8]| {
    let case = props::c16::case_from_fuzz_bytes(data);
    with_ctx("C16", false, |ctx| {
        let v = props::c16::eval(ctx, &case);
        report(ctx, v);
    });
});
