#![no_main]
#![allow(dead_code, unused_imports, unused_variables, unused_mut, unexpected_cfgs, unused_must_use, deprecated)]
include!("common.rs");
use libfuzzer_sys::fuzz_target;
use arbitrary::Unstructured;

// structure-aware: the bytes are decoded into (boundary, parts) and judged by the round-trip oracle of the C16 check
fuzz_target!(|data: &[u8]| {
    let mut u = Unstructured::new(data);
    let alphabet: &[u8] = b"ABCDEFGHIJKLMNOPQRSTUVWXYZabcdefghijklmnopqrstuvwxyz0123456789-'()+_,./:=?";
    let blen = u.int_in_range(1..=70usize).unwrap_or(8);
    let mut boundary = String::new();
    for _ in 0..blen { let i = u.int_in_range(0..=alphabet.len() - 1).unwrap_or(0); boundary.push(alphabet[i] as char); }
    let nparts = u.int_in_range(1..=8usize).unwrap_or(1);
    let mut parts = vec![];
    for k in 0..nparts {
        let nh = u.int_in_range(1..=3usize).unwrap_or(1);
        let mut headers = vec![];
        for h in 0..nh {
            let vlen = u.int_in_range(0..=20usize).unwrap_or(0);
            let mut value = String::from("v");
            for _ in 0..vlen { let c = u.int_in_range(0x21u8..=0x7e).unwrap_or(b'x'); value.push(c as char); }
            headers.push((if h == 0 { "Content-Disposition".to_string() } else { format!("X-H{}", h) }, if h == 0 { format!("form-data; name=\"f{}\"", k) } else { value }));
        }
        let blen = u.int_in_range(0..=300usize).unwrap_or(0);
        let body = u.bytes(blen.min(u.len())).unwrap_or(&[]).to_vec();
        parts.push(props::c16::PartSpec { headers, body: fw::util::Bytes(body) });
    }
    let browser = u.arbitrary::<bool>().unwrap_or(false);
    with_ctx("C16", false, |ctx| {
        let case = if browser { props::c16::Case::Browser { parts, boundary } } else { props::c16::Case::RoundTrip { parts, boundary } };
        let v = props::c16::eval(ctx, &case);
        report(ctx, v);
    });
});
