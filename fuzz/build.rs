use std::{env, fs, path::Path};
// rws is a binary-only crate. Its 23 top-level modules (plus the cfg(rws_verif) hook module) are
// declared here by path, so that `crate::...` paths inside rws resolve unchanged in this crate.
fn main() {
    let src = env::var("RWS_VERIF_SRC").unwrap_or_else(|_| "/repo".to_string());
    println!("cargo:rerun-if-env-changed=RWS_VERIF_SRC");
    println!("cargo:rerun-if-changed=build.rs");
    let mods = ["app","client_hint","cors","entry_point","ext","header","http","language","mime_type","range","request","response","server","symbol","thread_pool","log","body","json","null","url","core","application","controller","rws_verif_hooks"];
    let mut s = String::new();
    for m in mods { s.push_str(&format!("#[path = \"{}/src/{}/mod.rs\"] pub mod {};\n", src, m, m)); }
    let out = env::var("OUT_DIR").unwrap();
    fs::write(Path::new(&out).join("mods.rs"), s).unwrap();
    println!("cargo:rustc-env=RWS_VERIF_SRC_USED={}", src);
    println!("cargo:rustc-cfg=rws_verif");
    println!("cargo:rustc-check-cfg=cfg(rws_verif)");
    println!("cargo:rustc-check-cfg=cfg(rws_verif_shuttle)");
}
