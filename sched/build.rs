use std::{env, fs, path::Path};
// The thread pool of rws is compiled into this crate by path, with --cfg rws_verif_shuttle, so that the *same source*
// runs on shuttle's controlled primitives (thread, Arc, mpsc, Mutex).
fn main() {
    let src = env::var("RWS_VERIF_SRC").unwrap_or_else(|_| "/repo".to_string());
    println!("cargo:rerun-if-env-changed=RWS_VERIF_SRC");
    println!("cargo:rerun-if-changed=build.rs");
    let out = env::var("OUT_DIR").unwrap();
    fs::write(Path::new(&out).join("mods.rs"), format!("#[path = \"{}/src/thread_pool/mod.rs\"] pub mod thread_pool;\n", src)).unwrap();
    println!("cargo:rustc-cfg=rws_verif_shuttle");
    println!("cargo:rustc-check-cfg=cfg(rws_verif)");
    println!("cargo:rustc-check-cfg=cfg(rws_verif_shuttle)");
}
