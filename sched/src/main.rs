//! rwsv-sched — schedule exploration of rws's thread pool (the unmodified source, compiled against shuttle's primitives).
//! Speaks the worker protocol of the rwsv harness (child / replay-child) and writes the same result files.
#![allow(dead_code, unused_imports, unexpected_cfgs)]
include!(concat!(env!("OUT_DIR"), "/mods.rs"));

use proptest::prelude::*;
use proptest::strategy::ValueTree;
use proptest::test_runner::{Config as PtConfig, RngSeed, TestCaseError, TestError, TestRunner};
use serde::{Deserialize, Serialize};
use serde_json::{json, Value};
use std::collections::{BTreeMap, HashSet};
use std::hash::{Hash, Hasher};
use std::path::{Path, PathBuf};
use thread_pool::ThreadPool;

#[derive(Clone, Debug, Serialize, Deserialize, PartialEq, Eq, Hash)]
pub enum Task {
    Instant,
    /// yields k times (a long task)
    Long(u8),
    /// member of rendezvous group g: completes only when all members of the group are inside simultaneously
    Rendezvous(u8),
    /// panics inside the pool (C06: request handling that fails internally)
    Panic,
    /// blocks until the task submitted d positions later has finished: a pool with a shared queue and N >= 2 workers serves that later task on
    /// another worker; a pool that binds tasks to workers at submission (or serves fewer than 2 at a time) does not
    WaitFor(u8),
}

#[derive(Clone, Debug, Serialize, Deserialize, PartialEq, Eq, Hash)]
pub enum Sched { Random, Pct(u8),
    /// depth-first enumeration of every schedule, up to `iterations` executions; fewer executions than the cap = the space was enumerated completely
    Dfs }

#[derive(Clone, Debug, Serialize, Deserialize, PartialEq, Eq, Hash)]
pub struct Case {
    pub n: usize,
    pub tasks: Vec<Task>,
    /// widths of the rendezvous groups (group g needs widths[g] tasks inside at once)
    pub widths: Vec<u8>,
    pub interleave_submit: bool,
    /// the submitter releases its pool handle right after the last submission instead of after the last report: tasks that are still queued were handed to the pool and must run all the same
    #[serde(default)] pub early_drop: bool,
    pub scheduler: Sched,
    pub sched_seed: u64,
    pub iterations: usize,
    /// replay only: the failing schedule as printed by shuttle
    #[serde(default)]
    pub schedule: Option<String>,
}

fn hash64<T: Hash + ?Sized>(t: &T) -> u64 { #[allow(deprecated)] let mut h = std::hash::SipHasher::new_with_keys(0x5157, 0x7673); t.hash(&mut h); h.finish() }

/// One execution under shuttle: every counter must be exactly 1 after the pool is gone; every rendezvous must complete.
fn body(case: &Case) {
    use shuttle::sync::atomic::{AtomicUsize, Ordering};
    use shuttle::sync::{mpsc, Arc, Barrier};
    let t = case.tasks.len();
    let counters: Arc<Vec<AtomicUsize>> = Arc::new((0..t).map(|_| AtomicUsize::new(0)).collect());
    let finished: Arc<Vec<AtomicUsize>> = Arc::new((0..t).map(|_| AtomicUsize::new(0)).collect());
    let barriers: Vec<Arc<Barrier>> = case.widths.iter().map(|w| Arc::new(Barrier::new(*w as usize))).collect();
    let (done_tx, done_rx) = mpsc::channel::<usize>();
    let done: Arc<(shuttle::sync::Mutex<Vec<bool>>, shuttle::sync::Condvar)> = Arc::new((shuttle::sync::Mutex::new(vec![false; t]), shuttle::sync::Condvar::new()));
    let pool = ThreadPool::new(case.n);
    for (i, task) in case.tasks.iter().enumerate() {
        let c = counters.clone();
        let f = finished.clone();
        let tx = done_tx.clone();
        let done = done.clone();
        let task = task.clone();
        let barrier = match &task { Task::Rendezvous(g) => Some(barriers[*g as usize].clone()), _ => None };
        pool.execute(move || {
            c[i].fetch_add(1, Ordering::SeqCst);
            match task {
                Task::Instant => {}
                Task::Long(k) => { for _ in 0..k { shuttle::thread::yield_now(); } }
                Task::Rendezvous(_) => { barrier.unwrap().wait(); }
                Task::WaitFor(d) => { let target = i + d as usize; if target < t { let (m, cv) = &*done; let mut g = m.lock().unwrap(); while !g[target] { g = cv.wait(g).unwrap(); } } }
                // the three payload types a panic can carry: &'static str (literal message), String (formatted message), anything else (panic_any)
                Task::Panic => { f[i].fetch_add(1, Ordering::SeqCst); let _ = tx.send(i); match i % 3 { 0 => panic!("scripted job failure"), 1 => panic!("scripted job failure in task {}", i), _ => std::panic::panic_any(i) } }
            }
            f[i].fetch_add(1, Ordering::SeqCst);
            { let (m, cv) = &*done; m.lock().unwrap()[i] = true; cv.notify_all(); }
            let _ = tx.send(i);
        });
        if case.interleave_submit { shuttle::thread::yield_now(); }
    }
    drop(done_tx);
    // every task reports once; a lost task leaves this thread blocked, which shuttle reports as a deadlock
    let mut pool = Some(pool);
    if case.early_drop { drop(pool.take()); }
    for _ in 0..t { done_rx.recv().expect("a task was lost: all senders are gone but not every task reported"); }
    drop(pool);
    for i in 0..t {
        let c = counters[i].load(Ordering::SeqCst);
        assert!(c == 1, "task {} was executed {} times", i, c);
    }
}

pub struct Failure { pub message: String, pub schedule: Option<String> }

fn run_case(case: &Case, scratch: &Path) -> Result<usize, Failure> {
    use shuttle::scheduler::{DfsScheduler, PctScheduler, RandomScheduler, ReplayScheduler};
    let dir = scratch.join(format!("sched-{}-{}", std::process::id(), hash64(case)));
    let _ = std::fs::remove_dir_all(&dir);
    std::fs::create_dir_all(&dir).ok();
    let mut config = shuttle::Config::new();
    config.failure_persistence = shuttle::FailurePersistence::File(Some(dir.clone()));
    config.max_steps = shuttle::MaxSteps::FailAfter(2_000_000);
    let c2 = case.clone();
    let f = move || body(&c2);
    let result = std::panic::catch_unwind(std::panic::AssertUnwindSafe(|| {
        if let Some(s) = &case.schedule {
            shuttle::Runner::new(ReplayScheduler::new_from_encoded(s), config).run(f)
        } else {
            match case.scheduler {
                Sched::Random => shuttle::Runner::new(RandomScheduler::new_from_seed(case.sched_seed, case.iterations), config).run(f),
                Sched::Pct(d) => shuttle::Runner::new(PctScheduler::new_from_seed(case.sched_seed, d.max(1) as usize, case.iterations), config).run(f),
                Sched::Dfs => shuttle::Runner::new(DfsScheduler::new(Some(case.iterations), false), config).run(f),
            }
        }
    }));
    let out = match result {
        Ok(n) => Ok(n),
        Err(e) => {
            let message = if let Some(s) = e.downcast_ref::<String>() { s.clone() } else if let Some(s) = e.downcast_ref::<&str>() { s.to_string() } else { "?".to_string() };
            // shuttle wrote the failing schedule into a file of `dir`
            let schedule = std::fs::read_dir(&dir).ok().and_then(|rd| rd.filter_map(|e| e.ok()).next()).and_then(|e| std::fs::read_to_string(e.path()).ok()).map(|s| s.trim().to_string());
            Err(Failure { message, schedule })
        }
    };
    let _ = std::fs::remove_dir_all(&dir);
    out
}

fn signature(message: &str) -> String {
    let m = message.lines().next().unwrap_or("");
    if m.contains("deadlock") { return "pool-deadlock".to_string(); }
    if m.contains("was executed") { return if m.contains("executed 0 times") { "task-lost".to_string() } else { "task-executed-more-than-once".to_string() }; }
    if m.contains("a task was lost") { return "task-lost".to_string(); }
    if m.contains("scripted job failure") { return "panicking-job-takes-down-its-worker".to_string(); }
    if m.contains("exceeded max_steps") || m.contains("max_steps") { return "no-progress-within-step-bound".to_string(); }
    let mut s: String = m.chars().map(|c| if c.is_ascii_digit() { 'N' } else if c == ' ' { '_' } else { c }).collect();
    s.truncate(70);
    format!("pool-failure:{}", s)
}

// ---- generators -----------------------------------------------------------------------------------------------
/// Task lists are sequences of segments: a run of non-blocking tasks, a full rendezvous group of width N, or one long task followed by a
/// group of width N-1 ("a slow task delays at most one worker"). A FIFO pool of N workers must complete every such list.
fn tasks_strategy(n: usize, with_panics: bool) -> impl Strategy<Value = (Vec<Task>, Vec<u8>)> {
    let seg = prop_oneof![
        3 => proptest::collection::vec(prop_oneof![3 => Just(Task::Instant), 2 => (1u8..6).prop_map(Task::Long), if with_panics { 2 } else { 0 } => Just(Task::Panic)], 0..=n.max(1)).prop_map(|v| (v, 0u8)),
        3 => Just((vec![], 1u8)),   // full group of width N
        if n >= 2 { 2 } else { 0 } => Just((vec![], 2u8)),   // long task + group of width N-1
        if n >= 2 { 2 } else { 0 } => (1u8..=(2 * n.max(1)) as u8).prop_map(|d| (vec![Task::WaitFor(d)], 3u8)),   // a task that waits for the task d positions later
    ];
    proptest::collection::vec(seg, 0..=4).prop_map(move |segs| {
        let mut tasks = vec![]; let mut widths = vec![];
        for (plain, kind) in segs {
            if tasks.len() >= 4 * n { break; }
            match kind {
                0 => { for t in plain { if tasks.len() < 4 * n { tasks.push(t); } } }
                1 => { if tasks.len() + n <= 4 * n { let g = widths.len() as u8; widths.push(n as u8); for _ in 0..n { tasks.push(Task::Rendezvous(g)); } } }
                3 => { if let Some(Task::WaitFor(d)) = plain.first() { let d = *d as usize; if n >= 2 && tasks.len() + d + 1 <= 4 * n { tasks.push(Task::WaitFor(d as u8)); for _ in 0..d { tasks.push(Task::Instant); } } } }
                _ => { if n >= 2 && tasks.len() + n <= 4 * n { let g = widths.len() as u8; widths.push((n - 1) as u8); tasks.push(Task::Long(40)); for _ in 0..n - 1 { tasks.push(Task::Rendezvous(g)); } } }
            }
        }
        (tasks, widths)
    })
}

/// Configurations small enough for a depth-first enumeration of every schedule.
fn small_configs() -> Vec<(usize, Vec<Task>, Vec<u8>)> {
    vec![
        (1, vec![], vec![]),
        (1, vec![Task::Instant], vec![]),
        (1, vec![Task::Instant, Task::Instant], vec![]),
        (1, vec![Task::Rendezvous(0)], vec![1]),
        (2, vec![], vec![]),
        (2, vec![Task::Instant], vec![]),
        (2, vec![Task::Instant, Task::Instant], vec![]),
        (2, vec![Task::Rendezvous(0), Task::Rendezvous(0)], vec![2]),
        (2, vec![Task::Long(1), Task::Rendezvous(0)], vec![1]),
        (3, vec![Task::Instant], vec![]),
        (3, vec![Task::Rendezvous(0), Task::Rendezvous(0), Task::Rendezvous(0)], vec![3]),
    ]
}

fn case_strategy(iterations: usize, with_panics: bool) -> impl Strategy<Value = Case> {
    (1usize..=8).prop_flat_map(move |n| (Just(n), tasks_strategy(n, with_panics), any::<bool>(), prop_oneof![2 => Just(Sched::Random), 3 => (1u8..=4).prop_map(Sched::Pct)], any::<u64>()))
        .prop_map(move |(n, (tasks, widths), interleave_submit, scheduler, sched_seed)| Case { n, tasks, widths, interleave_submit, early_drop: sched_seed % 4 == 3, scheduler, sched_seed, iterations, schedule: None })
}

// ---- worker protocol --------------------------------------------------------------------------------------------
#[derive(Serialize, Default)]
struct WorkerResult {
    evaluations: u64, discards: u64, nontrivial_hashes: Vec<u64>, nontrivial_by_construction: u64, samples: Vec<Value>,
    classes: BTreeMap<String, u64>, known: BTreeMap<String, u64>, known_examples: BTreeMap<String, Value>, violations: Vec<Value>,
    notes: BTreeMap<String, u64>, sections: BTreeMap<String, u64>, exhaustive_sections: Vec<String>, inconclusive: Vec<String>, slowest_case_ms: u64,
}

fn arg_value(args: &[String], name: &str) -> Option<String> { args.iter().position(|a| a == name).and_then(|i| args.get(i + 1)).cloned() }

fn mute_stdout() {
    // the pool prints a line per job; its workers print a line to stderr when the channel closes - once per worker and execution, which adds up to a
    // gigabyte of log per engine worker in a thorough run. Both go to /dev/null (RWSV_SCHED_STDERR=1 keeps stderr); verdicts travel through the result file.
    unsafe {
        let devnull = std::ffi::CString::new("/dev/null").unwrap();
        let fd = libc_open(devnull.as_ptr());
        if fd >= 0 { dup2(fd, 1); if std::env::var("RWSV_SCHED_STDERR").is_err() { dup2(fd, 2); } }
    }
}
extern "C" { fn dup2(old: i32, new: i32) -> i32; #[link_name = "open"] fn open_c(path: *const std::os::raw::c_char, flags: i32, ...) -> i32; }
unsafe fn libc_open(p: *const std::os::raw::c_char) -> i32 { open_c(p, 1 /* O_WRONLY */) }

fn campaign(property: &str, section: &str, cases: u64, iterations: usize, with_panics: bool, seed: u64, worker: u32, dir: &Path, res: &mut WorkerResult, nontrivial: &mut HashSet<u64>) {
    let s = hash64(&(seed, property, section, worker));
    let mut runner = TestRunner::new(PtConfig { cases: cases as u32, failure_persistence: None, rng_seed: RngSeed::Fixed(s), max_shrink_iters: 60, ..PtConfig::default() });
    let failed = std::cell::RefCell::new(false);
    let state = std::cell::RefCell::new((0u64, BTreeMap::<String, u64>::new(), Vec::<Value>::new(), 0u64));
    let nt = std::cell::RefCell::new(HashSet::<u64>::new());
    let last: std::cell::RefCell<Option<(Case, Failure)>> = std::cell::RefCell::new(None);
    let strategy = case_strategy(iterations, with_panics);
    let result = runner.run(&strategy, |case| {
        let shrinking = *failed.borrow();
        let inflight = dir.join(format!("w{}.inflight.json", worker));
        let _ = std::fs::write(&inflight, serde_json::to_vec(&json!({"section": section, "case": &case})).unwrap());
        let t0 = std::time::Instant::now();
        let r = run_case(&case, dir);
        let ms = t0.elapsed().as_millis() as u64;
        match r {
            Ok(executions) => {
                if !shrinking {
                    let mut st = state.borrow_mut();
                    st.0 += executions as u64;
                    if ms > st.3 { st.3 = ms; }
                    let has_rv = case.tasks.iter().any(|t| matches!(t, Task::Rendezvous(_)));
                    let is_nt = case.n >= 2 && case.tasks.len() >= case.n && has_rv;
                    *st.1.entry(format!("workers-{}", case.n)).or_insert(0) += 1;
                    *st.1.entry(match case.scheduler { Sched::Random => "scheduler-random".to_string(), Sched::Pct(d) => format!("scheduler-pct-depth-{}", d), Sched::Dfs => "scheduler-dfs".to_string() }).or_insert(0) += 1;
                    if has_rv { *st.1.entry("with-rendezvous-group".into()).or_insert(0) += 1; }
                    if case.tasks.iter().any(|t| matches!(t, Task::Panic)) { *st.1.entry("with-panicking-job".into()).or_insert(0) += 1; }
                    if case.tasks.iter().any(|t| matches!(t, Task::WaitFor(_))) { *st.1.entry("task-waiting-for-a-later-task".into()).or_insert(0) += 1; }
                    if case.tasks.iter().any(|t| matches!(t, Task::Long(40))) { *st.1.entry("long-task-plus-group-of-N-1".into()).or_insert(0) += 1; }
                    if case.tasks.is_empty() { *st.1.entry("no-tasks".into()).or_insert(0) += 1; }
                    if is_nt { nt.borrow_mut().insert(hash64(&case)); if st.2.len() < 4 { st.2.push(json!({"section": section, "class": "nontrivial", "case": &case, "schedules_explored": executions})); } }
                }
                Ok(())
            }
            Err(f) => {
                *failed.borrow_mut() = true;
                let msg = f.message.clone();
                *last.borrow_mut() = Some((case.clone(), f));
                Err(TestCaseError::fail(msg))
            }
        }
    });
    let st = state.into_inner();
    res.evaluations += st.0;
    *res.sections.entry(section.to_string()).or_insert(0) += st.0;
    for (k, v) in st.1 { *res.classes.entry(k).or_insert(0) += v; }
    for s in st.2 { if res.samples.len() < 8 { res.samples.push(s); } }
    res.slowest_case_ms = res.slowest_case_ms.max(st.3);
    for h in nt.into_inner() { nontrivial.insert(h); }
    match result {
        Ok(()) => {}
        Err(TestError::Fail(_, minimal)) => {
            // re-run the minimal configuration to get its failing schedule
            let (case, failure) = match run_case(&minimal, dir) { Err(f) => (minimal, f), Ok(_) => last.into_inner().unwrap() };
            let mut c = case.clone();
            c.schedule = failure.schedule.clone();
            res.violations.push(json!({"property": property, "section": section, "sig": signature(&failure.message), "detail": format!("{} (N={}, {} tasks, scheduler {:?}; the replay file carries shuttle's schedule string)", failure.message.lines().next().unwrap_or(""), case.n, case.tasks.len(), case.scheduler), "case": c}));
        }
        Err(TestError::Abort(r)) => res.inconclusive.push(format!("proptest aborted: {}", r)),
    }
}

/// Depth-first enumeration (shuttle's DfsScheduler) of every schedule of the small configurations, shared out over the workers.
/// A configuration whose enumeration ends below the cap has been decided for *all* its schedules (section schedules-enumerated-completely);
/// the others contribute a systematic prefix of their schedule tree (section schedules-dfs-prefix).
fn enumerate_small(property: &str, cap: usize, local: u32, workers: u32, worker: u32, dir: &Path, res: &mut WorkerResult) {
    let mut k = 0u32;
    for (n, tasks, widths) in small_configs() {
        for inter in [false, true] {
            k += 1;
            if (k - 1) % workers.max(1) != local { continue; }
            let case = Case { n, tasks: tasks.clone(), widths: widths.clone(), interleave_submit: inter, early_drop: false, scheduler: Sched::Dfs, sched_seed: 0, iterations: cap, schedule: None };
            let inflight = dir.join(format!("w{}.inflight.json", worker));
            let _ = std::fs::write(&inflight, serde_json::to_vec(&json!({"section": "schedules-dfs", "case": &case})).unwrap());
            let t0 = std::time::Instant::now();
            match run_case(&case, dir) {
                Ok(executions) => {
                    let complete = executions < cap;
                    let section = if complete { "schedules-enumerated-completely" } else { "schedules-dfs-prefix" };
                    res.evaluations += executions as u64;
                    *res.sections.entry(section.to_string()).or_insert(0) += executions as u64;
                    *res.classes.entry(format!("{}:N={},tasks={},interleaved-submit={}", if complete { "every-schedule" } else { "dfs-prefix" }, n, tasks.len(), inter)).or_insert(0) += executions as u64;
                    if complete && !res.exhaustive_sections.contains(&section.to_string()) { res.exhaustive_sections.push(section.to_string()); }
                    res.slowest_case_ms = res.slowest_case_ms.max(t0.elapsed().as_millis() as u64);
                    if res.samples.len() < 8 && complete && !tasks.is_empty() { res.samples.push(json!({"section": section, "class": "every-schedule", "case": &case, "schedules_explored": executions})); }
                }
                Err(f) => {
                    let mut c = case.clone();
                    c.schedule = f.schedule.clone();
                    res.violations.push(json!({"property": property, "section": "schedules-dfs", "sig": signature(&f.message), "detail": format!("{} (N={}, {} tasks, depth-first enumeration; the replay file carries shuttle's schedule string)", f.message.lines().next().unwrap_or(""), n, tasks.len()), "case": c}));
                }
            }
        }
    }
}

fn main() {
    let args: Vec<String> = std::env::args().collect();
    let cmd = args.get(1).map(|s| s.as_str()).unwrap_or("");
    match cmd {
        "child" => {
            let property = args.get(2).cloned().unwrap_or_default();
            let thorough = arg_value(&args, "--tier").as_deref() == Some("thorough");
            let seed: u64 = arg_value(&args, "--seed").and_then(|s| s.parse().ok()).unwrap_or(1);
            let worker: u32 = arg_value(&args, "--worker").and_then(|s| s.parse().ok()).unwrap_or(0);
            let local: u32 = arg_value(&args, "--local-index").and_then(|s| s.parse().ok()).unwrap_or(worker);
            let workers: u32 = arg_value(&args, "--workers").and_then(|s| s.parse().ok()).unwrap_or(1);
            let dir = PathBuf::from(arg_value(&args, "--dir").unwrap_or_else(|| "/tmp".into()));
            mute_stdout();
            let mut res = WorkerResult::default();
            let mut nontrivial = HashSet::new();
            let share = |total: u64| total / workers as u64 + if (local as u64) < total % workers as u64 { 1 } else { 0 };
            let iterations = if thorough { 2000 } else { 300 };
            match property.as_str() {
                "C07" => {
                    campaign("C07", "schedules", share(if thorough { 40000 } else { 1600 }), iterations, false, seed, worker, &dir, &mut res, &mut nontrivial);
                    enumerate_small("C07", if thorough { 3_000_000 } else { 150_000 }, local, workers, worker, &dir, &mut res);
                }
                // pool half of C06: scripted job outcomes incl. panics, then the pool must still run full-width groups
                "C06" => campaign("C06", "pool-under-failing-jobs", share(if thorough { 20000 } else { 800 }), iterations, true, seed, worker, &dir, &mut res, &mut nontrivial),
                _ => res.inconclusive.push(format!("unknown property {}", property)),
            }
            res.nontrivial_hashes = nontrivial.into_iter().collect();
            std::fs::write(dir.join(format!("w{}.result.json", worker)), serde_json::to_vec(&res).unwrap()).unwrap();
        }
        "dfs-probe" => {
            // rwsv-sched dfs-probe <cap>: size of the schedule space of the small configurations (development aid)
            let cap: usize = args.get(2).and_then(|s| s.parse().ok()).unwrap_or(100000);
            let saved = unsafe { extern "C" { fn dup(fd: i32) -> i32; } dup(1) };
            mute_stdout();
            use std::io::Write; use std::os::unix::io::FromRawFd;
            let mut real = unsafe { std::fs::File::from_raw_fd(saved) };
            for (k, (n, tasks, widths)) in small_configs().into_iter().enumerate() {
                for inter in [false, true] {
                    let case = Case { n, tasks: tasks.clone(), widths: widths.clone(), interleave_submit: inter, early_drop: false, scheduler: Sched::Dfs, sched_seed: 0, iterations: cap, schedule: None };
                    let t0 = std::time::Instant::now();
                    let r = run_case(&case, &std::env::temp_dir());
                    let _ = writeln!(real, "config {} n={} tasks={:?} interleave={} -> {:?} in {} ms", k, n, tasks, inter, r.as_ref().map_err(|f| f.message.lines().next().unwrap_or("").to_string()), t0.elapsed().as_millis());
                }
            }
        }
        "replay-case" => {
            // rwsv-sched replay-case <json file with {section, case}> : prints REPLAY-PASS / REPLAY-FAIL sig=...
            let file = args.get(2).expect("file");
            let v: Value = serde_json::from_slice(&std::fs::read(file).expect("read")).expect("json");
            let case: Case = serde_json::from_value(v.get("case").cloned().unwrap_or(Value::Null)).expect("case");
            let out = std::io::stderr();
            let _ = out;
            let saved = unsafe { extern "C" { fn dup(fd: i32) -> i32; } dup(1) };
            mute_stdout();
            let scratch = std::env::temp_dir();
            let r = run_case(&case, &scratch);
            use std::io::Write;
            use std::os::unix::io::FromRawFd;
            let mut real = unsafe { std::fs::File::from_raw_fd(saved) };
            match r {
                Ok(_) => { let _ = writeln!(real, "REPLAY-PASS"); }
                Err(f) => { let _ = writeln!(real, "REPLAY-FAIL sig={} {}", signature(&f.message), f.message.lines().next().unwrap_or("")); std::process::exit(1); }
            }
        }
        _ => { eprintln!("usage: rwsv-sched child <C07|C06> --tier .. --seed .. --worker i --workers W --dir D | replay-case <file>"); std::process::exit(3); }
    }
}
